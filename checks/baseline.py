#!/usr/bin/env python3
"""Runs /repo's test suite (guard off: no build tags) and compares with /root/.vp/BASELINE.json stable_pass."""
import json, os, subprocess, sys

env = dict(os.environ, GOFLAGS="-mod=mod", GOPROXY="off", GOSUMDB="off", GOTOOLCHAIN="local")
p = subprocess.run(["go", "test", "-json", "-vet=off", "-count=1", "-timeout", "25m", "./..."], cwd="/repo", env=env,
                   capture_output=True, text=True)
status = {}
for line in p.stdout.splitlines():
    try:
        e = json.loads(line)
    except Exception:
        continue
    if e.get("Test") and e.get("Action") in ("pass", "fail", "skip"):
        status[e["Package"] + "::" + e["Test"]] = e["Action"]
base = json.load(open("/root/.vp/BASELINE.json"))
bad = [t for t in base["stable_pass"] if status.get(t) != "pass"]
print(f"baseline tests: {len(base['stable_pass'])}, passing now: {len(base['stable_pass']) - len(bad)}")
for t in bad:
    print("NOT PASSING:", t, status.get(t))
sys.exit(1 if bad else 0)
