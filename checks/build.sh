#!/bin/bash
# builds the gosym engine from /verif/engine (offline)
set -e
export GOFLAGS=-mod=mod GOPROXY=off GOSUMDB=off GOTOOLCHAIN=local
ROOT="$(cd "$(dirname "$0")/.." && pwd)"
cd "$ROOT/engine"
mkdir -p "$ROOT/bin"
go build -o "$ROOT/bin/gosym" .
