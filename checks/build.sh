#!/bin/bash
# builds the gosym engine from /verif/engine (offline)
set -e
export GOFLAGS=-mod=mod GOPROXY=off GOSUMDB=off GOTOOLCHAIN=local
cd /verif/engine
mkdir -p /verif/bin
go build -o /verif/bin/gosym .
