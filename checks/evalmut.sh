#!/bin/bash
# usage: checks/evalmut.sh <property> <mutant dir containing patch.diff demo_test.go meta.json> [check ids...]
# Confirms a seeded change in a scratch worktree (compiles, baseline passes, demo fails with / passes
# without) and then runs the given checks (default: the property's own) against /repo with the patch applied.
prop="$1"; dir="$2"; shift 2
checks="${*:-$prop}"
export GOFLAGS=-mod=mod GOPROXY=off GOSUMDB=off GOTOOLCHAIN=local
wt=/tmp/evalmut_$$
git -C /repo worktree add --detach "$wt" HEAD -f >/dev/null 2>&1 || { echo "worktree failed"; exit 2; }
trap 'git -C /repo worktree remove --force "$wt" >/dev/null 2>&1' EXIT
demodir=$(python3 -c "import json;print(json.load(open('$dir/meta.json')).get('demo_dir','.'))")
[ "$demodir" = "" ] && demodir=.
tests=$(grep -o '^func Test[A-Za-z0-9_]*' "$dir/demo_test.go" | sed 's/func //' | paste -sd'|')
# 1. demo passes without the patch
cp "$dir/demo_test.go" "$wt/$demodir/zz_demo_test.go"
( cd "$wt/$demodir" && go test -vet=off -count=1 -run "^($tests)\$" -timeout 5m . >/tmp/evalmut_clean_$$.log 2>&1 ); clean=$?
# 2. apply, build, demo fails
( cd "$wt" && git apply "$dir/patch.diff" ) || { echo "RESULT $dir patch-does-not-apply"; exit 0; }
( cd "$wt" && go build ./... >/tmp/evalmut_build_$$.log 2>&1 ) || { echo "RESULT $dir does-not-compile"; exit 0; }
( cd "$wt/$demodir" && go test -vet=off -count=1 -run "^($tests)\$" -timeout 5m . >/tmp/evalmut_mut_$$.log 2>&1 ); mut=$?
rm -f "$wt/$demodir/zz_demo_test.go"
# 3. baseline with the patch (in the worktree)
( cd "$wt" && go test -json -vet=off -count=1 -timeout 25m ./... 2>/dev/null | python3 -c "
import json,sys
st={}
for l in sys.stdin:
    try: e=json.loads(l)
    except Exception: continue
    if e.get('Test') and e.get('Action') in ('pass','fail','skip'): st[e['Package']+'::'+e['Test']]=e['Action']
base=json.load(open('/root/.vp/BASELINE.json'))['stable_pass']
bad=[t for t in base if st.get(t)!='pass']
print('baseline_bad=%d'%len(bad)); [print('  ',t) for t in bad[:5]]
" ) > /tmp/evalmut_base_$$.log 2>&1
basebad=$(grep -o 'baseline_bad=[0-9]*' /tmp/evalmut_base_$$.log | cut -d= -f2)
echo "CONFIRM $dir demo_clean_exit=$clean demo_mutant_exit=$mut baseline_bad=$basebad"
# 4. run the checks against the scratch worktree with the patch applied (/repo itself stays untouched)
for c in $checks; do
  out=/tmp/evalmut_check_${c}_$$.log
  VERIF_REPO="$wt" VERIF_EVIDENCE="/tmp/evalmut_evidence_$$.json" /verif/checks/check "$c" quick > "$out" 2>&1; ec=$?
  v=$(grep -c '^VIOLATION' "$out")
  echo "RESULT $dir check=$c exit=$ec violations=$v $(grep -m2 'violation:' "$out" | cut -c1-160 | tr '\n' '|')"
done
