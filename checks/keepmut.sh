#!/bin/bash
# usage: checks/keepmut.sh <property> <mutant dir> <seeded id> "<detected by ...>"
prop="$1"; dir="$2"; id="$3"; det="$4"
out=/verif/seeded/$id
mkdir -p "$out"
cp "$dir/patch.diff" "$out/patch.diff"
cp "$dir/demo_test.go" "$out/demo_test.go"
python3 - "$dir/meta.json" "$out/meta.json" "$prop" "$det" <<'PY'
import json,sys
m=json.load(open(sys.argv[1]))
m['breaks_property']=sys.argv[3]
m['confirmed']='checks/evalmut.sh: applies to HEAD of /repo, go build ./... ok, 109 baseline tests pass with the change, demo test passes without and fails with the change'
m['detection']=sys.argv[4]
json.dump(m,open(sys.argv[2],'w'),indent=1)
PY
