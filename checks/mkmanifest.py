#!/usr/bin/env python3
"""Regenerates /verif/MANIFEST.json from the table below (keeps it schema-valid at all times)."""
import json, os

TECH = "bounded symbolic execution of go/ssa (gosym) + SMT (QF_BV, z3; obligations unsat for all values within bounds), counterexamples replayed natively"

# id -> dict(text, note)  for claimed checks
CLAIMED = {
 "C03": dict(
  text="Per node type (all 53 non-Package types, generated from /repo/dst.go at check time): a generic undecorated instance (every bool flag and token kind symbolic, optional children present / all nil, lists of length 0-2) is restored by the real restoreNode to a positioned ast from an arbitrary restorer state, converted back by the real decorateNode, and the result must be deeply equal to the input for all flag values (solver obligation over every scalar), and restore again to an equal ast. This is the field/token-existence part of 'tokens survive'; the comment-conservation part under arbitrary formatting needs link() over fragment lists and is not claimed yet.",
  note="Decided at the ast interface under the parser/printer contracts P and PC of DESIGN.md section 3 (go/parser, go/printer, scanner normalisation such as CRLF/BOM are outside). Bounds: depth 1 children, lists <= 2.",
  design="5/C03"),
 "C04": dict(
  text="Per node type and per decoration point (forked): a generic instance with <= 2 decorations of forked kind (newline, line comment, one-line block comment; comment bodies opaque strings of any length < 65536) on that point is restored by the real restoreNode from an arbitrary restorer state (symbolic base, cursor, last line, freshness). Solver obligations: every comment decoration is rendered exactly once, in listing order, with its own text; it lies in the gap that the real fragmenter (addNodeFragments run on the restored ast) assigns to that (node, point) - after the preceding token/child, before the following one; Start before the node's first token, End after its last; an End comment that begins a line is indented. The same for the Start/X/End points of an expanded package-qualified identifier. Accessors: dstutil.Decorations lists every point in the restorer's render order, backed by the node's storage; Decorations() aliases the node's NodeDecs and writes through it are rendered.",
  note="Reference for 'documented place' is the generated fragmenter, which the repo's TestPositions ties to the documented examples. Points that exist only conditionally (e.g. ChanType.Arrow without arrow) get the range check only. Printer behaviour is contract PC.",
  design="5/C04"),
 "C05": dict(
  text="The exact code every generated restoreNode case runs between two siblings (applyDecorations(A.End), applySpace(A.After), applySpace(B.Before), applyDecorations(B.Start)) is executed symbolically from an arbitrary restorer state with symbolic spaces in {None,NewLine,EmptyLine} and forked End/Start decorations; the line breaks between consecutive positioned items are read from the real line table and must equal, capped at one blank line, the documented rule max(After,Before) with line comments / newline decorations contributing exactly their own break. For all cursor/base/length values (LIA/BV obligations). The same rule for two real siblings of each of the 53 node types restored by the real restoreNode, and for package-qualified identifiers; breaks produced by spacing alone lie strictly behind the first sibling's End() (go/printer's parameter lists compare End() lines).",
  note="Bounds: <= 1 (quick) / 2 (thorough) decorations per side. Printer (blank-line capping, where breaks are legal) is contract PC; expression-level NewLine splitting is printer behaviour and not decided here.",
  design="5/C05"),
 "C06": dict(
  text="Per node type: Clone of a generic instance (one distinct comment on every decoration point of the node and its children, symbolic spaces/flags, lists with spare capacity) shares no allocation, backing array or map with the original (engine heap), and restoring original and clone from the same arbitrary restorer state yields deeply equal asts, line tables, comments and cursor, so every field printing consults was copied; scribbling over the whole clone leaves the original's rendering unchanged; a node placed at two positions (6 shapes incl. deep/cross-parent) makes restore panic while the Clone variant restores both.",
  note="Bounds: children one level deep, lists <= 2. Object/Scope links are nil in generic instances (dropping them is visible only with Extras).",
  design="5/C06"),
 "C11": dict(
  text="Per node type: after the real restoreNode (Restorer.Map) and after the real decorateNode of the restored ast (Decorator.Map), every ast node reached by ast.Inspect has a dst counterpart of the corresponding type, every dst node maps back, the maps are mutually inverse, commute with parent/child structure, contain no nil keys and the trees have equal node counts.",
  note="Bounds: generic instances with children one level deep, lists <= 2, without import resolution (the selector-collapse case of resolved identifiers is not yet covered).",
  design="5/C11"),
 "C12": dict(
  text="Inductive invariant I of the restorer state (base<=cursor, fresh-line mark behind cursor, line table strictly increasing and behind the cursor, comments ordered and inside) is shown preserved from an arbitrary state satisfying I by applySpace, applyDecorations (all four decoration kinds incl. content-bounded multi-line block comments, File/Start special case, initial state) and literals (raw strings with newlines), and by restoreNode of a generic instance of every node type (symbolic spaces, flags, token kinds); the real fragmenter run on each restored ast must find token extents ordered, non-overlapping and inside the cursor range (exact agreement of token lengths). RestoreFile through the real go/token FileSet (symbolic base via a prior file): no panic, SetLines accepts the table, positions inside the file, two files in one FileSet disjoint.",
  note="'Order equals that of a fresh parse of the printed text' is replaced by ordering/non-overlap in the fragmenter's token order plus contract PC. Bounds: <= 2 (3 thorough) decorations per step, children depth 1.",
  design="5/C12"),
 "C13": dict(
  text="Per node type: for a generic dst instance with each documented-optional child nil in turn, all nil, or none nil (optional-ness read from dst.go's field comments at check time), the visit log of the real dst.Walk equals, through the restorer's node map, the visit log of go/ast's Walk on the restored ast: same nodes, same order, same nil calls, each node once; pruning at every visit index removes the same subtree in both; Inspect follows the same sequence.",
  note="Bounds: depth 2 trees, lists of 2. Mostly shape reasoning: the solver's share is path feasibility; equality of logs is decided on the engine's concrete heap.",
  design="5/C13"),
 "C15": dict(
  text="At the ast interface under parser contract P: the real DecorateFile+RestoreFile are executed on the shapes go/parser returns for broken input - the empty file with Package==NoPos (file sizes 0..3, arbitrary line table, symbolic FileSet base), a file whose only declaration is a BadDecl of symbolic extent - and restore/fragment/link/decorate are executed on generic instances of every node type with all token-existence flags symbolic (closers without position) and optional children missing; no path may reach a panic.",
  note="The claim is about P's clauses, not about all byte strings: go/parser and go/scanner are not executed symbolically. Shapes are hand-built from reading go/parser (go1.23).",
  design="5/C15"),
 "C19": dict(
  text="All paths of Append/Prepend/Replace/Clear/All are executed symbolically from go/ssa for every list state (len<=3, spare cap<=2, nil/empty), every argument shape (fresh array with spare capacity, view of the list's own elements, nil) and, in sequences of 2 (quick) / 3 (thorough) operations, against a reference []string; element bytes are solver-ranged, aliasing is decided on the engine's concrete heap; append growth capacity is forked {needed, needed+1}. Bounded model checking, not a proof.",
  note="Bounds: len<=3, spare<=2, argument len<=3, <=3 operations. Trusted: gosym's SSA semantics (validated by native replay of witness paths), z3.",
  design="5/C19"),
}


CLAIMED.update({
 "C07": dict(
  text="The real updateImports + restoreNode/restoreIdent are executed on files with one import block of 0-2 specs (name kinds none / symbolic alias / dot / blank, optional cgo spec), with 0-1 source specs 1-2 (thorough 3) identifiers, with 2 source specs one identifier, whose path is empty, local or one of three pool paths (plain, dotted, slashed), an optional alias override, and a resolver with symbolic package names, so that name conflicts, renaming and precedence are solver-decided. Obligations on the restored ast: each non-local identifier is a selector on the name bound by the single import of its path (bare only under a dot import), local/empty-path identifiers are bare, each used path is imported exactly once, blank and cgo imports are kept, unused ones removed, nothing else imported, ordinary import names pairwise distinct, override > source alias > resolved name. A path imported twice under two names must end up imported once. Per node type: a path on the leaves of each expression field in turn (or only on nested leaves) is found by the scan wherever it sits. Three used packages whose resolved names may look like generated aliases (p, q, p1, q1): all bound names distinct. Map-iteration-order independence of the result (shared with C16).",
  note="Paths come from a concrete pool (map keys concrete), names/aliases are one symbolic byte. Bounds as stated; gopackages/gobuild resolvers (I/O) and the printed text (contract PC) are outside. 'Blocks that need no addition keep order and decorations' is checked by C08's no-op harness.",
  design="5/C07"),
 "C08": dict(
  text="Part (2) only: for sources that already import exactly what they use (1-2 specs incl. aliased, dot, blank and cgo specs with comments and spacing, non-colliding effective names, accurate resolver with symbolic names) the real updateImports leaves the import declaration deeply equal to what it was (specs, aliases, decorations, spacing, parentheses), the declaration list unchanged, and reports each package under its source name.",
  note="The qualified-identifier collapse/expand round trip through link()/mergeDecorations (part 1) and re-decoration of printed output are not covered yet.",
  design="5/C08"),
 "C17": dict(
  text="Fault position enumerated by forking over every resolver call of the run: (a) restore: package-name resolver failing at call k during RestoreFile of files with 0-1 import specs and 1-2 (3) path-carrying identifiers; (b) decorate: identifier resolver failing at call k during DecorateFile of a positioned file with 1-2 (3) qualified selectors, parser objects and a forward reference (a declaration reached through the object link); (c) a transient failure of the package-name resolver behind a shared syntax-based resolver, retry on the same file. Obligations: error returned and errors.Is(err, injected), no tree returned, no panic, input tree deeply equal to its snapshot, and a fresh restorer/decorator with a working resolver yields a result deeply equal to the failure-free run.",
  note="The decorate-side harness is concrete apart from the failure position (file bytes and positions are fixed); the solver's share there is nil. Bounds as stated.",
  design="5/C17"),
 "C20": dict(
  text="The real Package.save (the function behind Save/SaveWithResolver, with the writer injected as the code allows) over 1-3 decorated files with Filenames filled as DecorateNode does, symbolic package names, and a resolver or writer failing at a forked position: the write log is exactly one write per file before the first failure, in order, to the file's recorded path, with that file's own print; the error is returned and wraps the cause; nothing is written after it. go/format.Node is an uninterpreted function (contract PC); witnesses are replayed natively against the real printer.",
  note="Byte-identity of unedited files is C01/C08 territory and not repeated; Load (go/packages I/O) is outside.",
  design="5/C20"),
})

CLAIMED.update({
 "C01": dict(
  text="Decided at the ast+FileSet interface under contracts P (parser) and PC (printer). (a) Pipeline: the real go/parser parses six concrete gofmt-canonical sources (and two files as one *ast.Package, the ParseDir path, map order forked) natively inside the engine; the ast is placed at a symbolic FileSet base; the real DecorateFile/DecorateNode (real fragment() byte scan, link(), decorateNode) and the real RestoreFile into a second FileSet with its own symbolic base run symbolically: restored ast equal to the parsed one except positions, same comments in order, same capped line structure between consecutive positioned items, no overlapping items. (b) Gap lemma G: for 14 configurations (block statements, call arguments, file declarations incl. package clause, case clauses, struct fields, import specs, if/else with init, composite literals with qualified types and key-value elements, generic instantiations, generic type declarations, methods with receiver/ellipsis/results and for/range loops, select/comm clauses/labels/go/defer/channel types, type switches/slices/func literals, interface embedding/alias/map types/tags) the real addNodeFragments gives the token/decoration fragments of a restored ast; into every gap between two tokens (forked) a forked sequence of <= 2 items that gofmt-formatted source can contain (block comments, line comments with their line break, line breaks, blank lines; bodies opaque; neighbouring comments possibly identical) is inserted where fragment()'s stable sort puts them, with every line's indent a free symbolic column; then the real link(), decorateNode and restoreNode run. Solver obligations over all indents/lengths/cursor states: no panic, every comment rendered exactly once, in source order, between the same two tokens, and the line breaks between consecutive positioned items (capped at one blank line) equal the original ones. Together with C12 (exact agreement of fragmenter and restorer token arithmetic for all 53 node types, symbolic FileSet base) and C03's field round trip this is the decorate->restore identity on canonical layouts.",
  note="Outside: go/printer itself (PC); in the gap lemma fragment()'s byte scan is re-created by a model (where items sort, one fragment per line break, Empty for blank lines; gaps in front of tokens without go/ast position never receive items) while the pipeline harness runs the real scan on fixed sources; the entry-point wrappers (Parse/Print/ParseDir are thin and covered only through DecorateFile/RestoreFile in C12/C15/C20), more than 2 items per gap (quick), two decorated gaps only in thorough.",
  design="5/C01"),
 "C14": dict(
  text="(1) List-edit semantics, differential: the real dstutil.Apply and the real golang.org/x/tools astutil.Apply (the version /repo pins), both executed symbolically with reflect implemented over the engine heap, run the same script on mirrored trees (statement list / argument list of 1-3 (4) elements; at a forked element and phase a forked sequence of <= 2 operations from Replace/Delete/InsertBefore/InsertAfter and a forked return value): callback logs (phase, node, Name, Index), panics, and final lists must be equal; Parent().Name[Index]==Node() at every callback before the element is edited; for single operations no element is visited twice and inserted nodes never. Root replacement + abort returns what astutil returns. (2) Per node type: Apply's pre order equals dst.Walk order, Name()/Index() locate the node in Parent() (field lookup by name), post is called once per node with the root last, pre=false skips exactly that subtree and its post, post=false stops and still returns the tree.",
  note="Mostly shape reasoning: obligations are decided by the engine's concrete heap and term simplifier; the solver's share is small. Bounds: lists <= 4, <= 2 ops on one element, one scripted element. Package.Files map special case not covered.",
  design="5/C14"),
 "C16": dict(
  text="(a) Data races: two thread bodies (ResolveIdent on a shared goast resolver created with New() or WithResolver(read-only map), 1-2 calls each on different files; RestoreFile with own restorers sharing a guess/simple map) are executed from the real SSA in both orders with every load/store/map access to memory reachable from the shared roots and every mutex Lock/Unlock recorded; one SMT query per run asks for integer clocks satisfying program order and mutual exclusion of critical sections such that two conflicting accesses are unordered by happens-before (program order + unlock->lock). unsat = race-free in every schedule of these events; sat is replayed with two goroutines under go test -race. Also two concurrent DecorateFile calls with import management on files whose qualified identifiers carry inner comments (element writes by append/copy are events too). Results equal the calls made alone. (b) Determinism: updateImports with every map iteration order forked over all permutations gives the same declarations and package names as insertion order (also with two paths differing only in letter case; natively the randomised-map run is repeated 64 times).",
  note="Events come from sequential executions (both orders): schedule-dependent control flow inside a thread beyond that is not explored. 2 threads, <= 2 calls each. Stdlib internals behind intrinsics (sync, maps) are assumed race-free.",
  design="5/C16 and 2.7"),
 "C18": dict(
  text="(1) A positioned ast with a parser-style object graph (file scope with two objects of symbolic name/kind/data, Decl links forming the cycle object->decl->ident->object, nested scope, extra object with Decl in {nil, Scope, node} and Data in {nil, Scope, int, node}) is decorated by the real DecorateFile: identifiers share an object exactly when their counterparts do, kind/name/data kept, Decl/Data links point to the dst counterparts, scope nesting and membership preserved, maps inverse; RestoreFile with Extras rebuilds an isomorphic graph. (2) The real dst.NewPackage and the real go/ast NewPackage run on mirrored files (1-2 files, 0-1 (thorough: 0-2 in the first file) scope objects and 0-1 (2) unresolved identifiers with symbolic one-byte names, 0-1 import spec plain/aliased/dot/blank, importer nil/failing/stub): same package scope, same error list (count and messages), same unresolved remainder.",
  note="Bounds as stated; with differing package clauses both implementations depend on map order alike (assumed equal names for 2 files).",
  design="5/C18"),
})
CLAIMED["C03"]["text"] += " Part (2), conservation under arbitrary formatting: the gap lemma (see C01) with every item sequence fragment() can emit (any mix of comments, line breaks and blank lines, neighbouring comments possibly identical) and unconstrained indents: no comment lost, duplicated, reordered or moved across a token."
CLAIMED["C03"]["note"] = "Decided at the ast interface under contracts P and PC (go/parser, go/printer, scanner normalisation such as CRLF/BOM are outside). Bounds: depth 1 children, lists <= 2; gaps: 10 configurations, <= 1 item per gap (2 in blocks; +1 in thorough)."
CLAIMED["C08"]["text"] = "Part (1): gap lemma on qualified identifiers pkg.Name (3 contexts) with an identifier resolver that says 'qualified' and an import-managing restorer: comments/line breaks in every gap around X, '.', Sel survive decorateSelectorExpr+mergeDecorations (collapse) and restoreIdent (expansion): once, in order, between the same tokens, line structure kept. " + CLAIMED["C08"]["text"]
CLAIMED["C08"]["note"] = "A comment directly before the '.' has no position to return to (go/ast has none for the period; gofmt itself moves it) and is only required to survive. Re-decoration of printed output (needs the parser) is not covered."
CLAIMED["C11"]["text"] += " Plus: parser objects with Decl links (labeled statement, function, value/type spec, field, short variable declaration; with/without forward reference) with the whole-map inverse law; one Restorer restoring two files; qualified-identifier collapse (three ast nodes -> one identifier, identifier -> selector, parent/child commutation) and expansion on restore."
CLAIMED["C11"]["note"] = "Bounds: generic instances with children one level deep, lists <= 2."
CLAIMED["C15"]["text"] += " Gap lemma with arbitrary comment/line-break sequences (<= 2, 3 thorough) in every gap of blocks, switch/case clauses and if/else, and next to Bad nodes of symbolic extent; import spec with an empty path literal."
CLAIMED["C20"]["text"] += " VerifC20Disk: the public SaveWithResolver on files that went through the real RestoreFile/DecorateFile pipeline (names recorded by DecorateNode, optional //line directive, unsorted import block), against an in-memory model of os.WriteFile/OpenFile/File.Write holding longer old contents: every path holds exactly gofmt's (go/format) print of its file, no other file exists."

CLAIMED.update({
 "C02": dict(
  text="L1 (all 53 node types): a generic instance with a comment on every point and symbolic spacing/flags/tokens is restored from an arbitrary restorer state and from the same state translated by a symbolic delta with equal left-context freshness: the second ast, its new line starts and comments are the first's shifted by delta (solver obligation through a typed walk over all token.Pos fields) - a node renders identically wherever it is moved. L2 + edits (10 list kinds: statements, call arguments, composite-literal elements, value specs, type specs, import specs, struct fields, interface methods, file declarations, case clauses; 3 elements): chunks (0-1 comment lines directly above, trailing same-line comment, optional blank line before) are inserted into the real fragment list with gofmt-shaped symbolic indents; after the real link()/decorateNode each above-comment is in its own element's Start, each trailing comment in an End inside its own element's subtree, a blank line is Before/After of the two adjacent elements and nothing else; then the decorated list is permuted / an element deleted / moved / duplicated with Clone, restored by the real restoreNode, and every chunk comment is rendered once, next to its own element (above-lines directly above with exactly one line break, trailing comment on the element's line), every element starts on its own line and the closing delimiter stays on its own line.",
  note="'Equals gofmt of the edited source' is decided at the ast+line-table interface under contract PC. Bounds: 3 elements, <= 1 comment line above (2 in thorough), uniform separators, one edit per run; quick tier trims which elements carry which chunk parts.",
  design="5/C02"),
 "C09": dict(
  text="Real go/types objects (constructors executed from SSA after running go/types' package init) populate Uses; the types-based resolver is run as the decorator runs it (resolvePath: resolver + stripVendor + local-path suppression). Selector situations: X is an identifier denoting a PkgName (any alias, path plain / vendored two ways), a var/field/func/type/const of either package, an identifier without Uses entry, or not an identifier; Sel with or without its own Uses entry -> path iff qualified identifier, vendor prefix removed. Plain identifiers: Uses absent / Var / field / Func / TypeName / Const / Label / universe object, owned by the local or the other package, in a call or a composite-literal key position -> path iff package-level object of the other package (dot-import). Declaring/name positions never resolved. stripVendor against its specification on paths assembled from symbolic filler bytes around 0-2 vendor elements. goast: error iff dot-import or two imports under one effective name (names/aliases symbolic), otherwise agreement with the types-based resolver on qualified selectors.",
  note="What go/types records in Uses for each syntactic situation is contract T (the type checker is not executed). Shadowing of a package name by a local is represented only through 'X has a non-PkgName Uses entry' / goast's X.Obj check is not exercised with a non-nil Obj.",
  design="5/C09"),
 "C10": dict(
  text="Composition on real code: file A (import of a path under its resolved name or a symbolic alias, one qualified reference) is decorated by the real DecorateFile with the syntax-based resolver; the declaration is moved into file B (0-1 import spec over three pool paths: none/alias/dot/blank with symbolic alias; one own reference with path empty/local/pool) and B is restored with import management (symbolic package names, so conflicts occur): moved and own references are bound, by B's restored import specs under contract T, to their original path and name, unambiguously; bare only under a dot-import; then the restored B is decorated again and the moved reference gets the same path and name (repeated moves compose), a dot-import making the syntax-based resolver return an error instead.",
  note="'Type-checks whenever the original did' is judged through name binding under contract T only; shadowing by declarations in B is excluded by the statement. One move, one moved reference.",
  design="5/C10"),
})

# ---- round-3 additions
CLAIMED["C01"]["text"] += " (c) Entry points: decorator.Parse+Fprint, ParseFile with the caller's FileSet (prior file, symbolic base), Decorator.ParseFile with a []byte source (Filenames recorded) and Decorator.ParseDir over an in-memory file system (go/parser.ParseFile/ParseDir are engine intrinsics that run the real parser natively on concrete sources): the package and every file are in the node maps, files correspond by name, each file restores to the parsed ast."
CLAIMED["C01"]["note"] = CLAIMED["C01"]["note"].replace("the entry-point wrappers (Parse/Print/ParseDir are thin and covered only through DecorateFile/RestoreFile in C12/C15/C20), ", "")
CLAIMED["C02"]["text"] += " L1b (all node types): Clone of a generic instance is deeply equal to the original (every field, spacing value, decoration; all scalars symbolic), so a duplicate renders as the original. L3 hanging comments: switch/case and select/comm clause lists with empty or one-statement bodies, a comment one column deeper than the case line after a clause (columns symbolic), optional above-comment and blank line: link() stores the hanging comment inside its own clause and it is rendered with that clause after every edit. L4: with Restorer.Extras, a deleted declaration / short variable declaration that an object still refers to contributes nothing to the printed file (comments, line table and size equal to a restore without Extras)."
CLAIMED["C04"]["text"] += " Instances also with all optional children absent (decorations stay on their point). One FileRestorer value restoring two files leaves the first file's comments untouched."
CLAIMED["C06"]["text"] += " Clone drops Object/Scope links (identifier objects, file and package scopes, import objects) and shares nothing; the shared-node rejection also holds at RestoreFile level with and without Extras (VerifC06Links, VerifC06SharedFile)."
CLAIMED["C06"]["note"] = "Bounds: children one level deep, lists <= 2."
CLAIMED["C11"]["text"] += " The key identifier of a range statement (reached again through its object's synthetic declaration) with the whole-map inverse law; Decorator.ParseDir: the package node and all files are in both maps."
CLAIMED["C13"]["text"] += " Leaf variants of statement/expression children are forked (implicit empty statement behind a label, Ellipsis without element, identifier lists), so that nil-calls and early returns of particular cases are compared too."
CLAIMED["C14"]["text"] += " (3) A *dst.Package root, differential against astutil on the mirrored *ast.Package (1-2 files): same callbacks incl. calls with a nil node, files in file-name order with Name() = file name and Index() < 0, Delete/Replace at a forked file give the same final Files map."
CLAIMED["C14"]["note"] = CLAIMED["C14"]["note"].replace(" Package.Files map special case not covered.", "")
CLAIMED["C18"]["text"] += " A universe scope holding one predeclared name that unresolved identifiers may hit is forked in; both implementations are run repeatedly natively so that map-order dependent differences show."

# ---- round-4 additions
CLAIMED["C08"]["text"] += " VerifC08Reuse: one FileRestorer value restoring two files (first with an aliased/blank/dot import, alias symbolic): the second file's import block stays deeply equal and the user-facing Alias option is not written. VerifC08ExternalTest: decorator path x.y/a_test importing x.y/a: qualified identifiers keep the imported path, unedited restore keeps the import. VerifC08GoastNames: syntax-based resolver with an accurate name resolver on an un-aliased import whose package name (symbolic) differs from the last path element."
CLAIMED["C09"]["text"] += " Further forks: the decorated package itself below a vendor directory; the decorated package being the external test package of the imported one; identifiers the parser linked to a same-file declaration; ResolveLocalPath; a raw-string import literal for the syntax-based resolver; one types-based resolver serving two files that bind one name to two paths (either order, asked again)."
CLAIMED["C10"]["text"] += " VerifC10TwoFiles: two files of one package decorated by one Decorator and one syntax-based resolver bind the same (symbolic) name to different paths: each reference gets the path its own file imports, in either order. VerifC10LocalPath: with ResolveLocalPath and the types-based resolver a reference to a same-file package-level declaration (parser object set or not) carries the local path and is restored qualified into another package."
CLAIMED["C16"]["text"] += " The shared-resolver harness also runs both goroutines on the same file; the shared-map harness also uses paths the shared guess map does not know (the map must not be written); the determinism harness also gives every used package an explicit symbolic alias (nothing left to resolve) in the quick tier."
CLAIMED["C17"]["text"] += " (d) VerifC17Entry: the other decorating entry points - Decorator.ParseFile on a clean source and on one with a recoverable syntax error (real parser returns a partial file plus its error), DecorateNode on a fragment, Decorator.ParseDir - with the identifier resolver failing at call k: error wrapping the injected one, no tree; without failure the syntax error is returned with the tree."
CLAIMED["C20"]["text"] += " The FS model answers os.Stat; old contents of exactly the new print's size are forked in; a multi-line raw string sits in the second file of the FileSet. VerifC20SaveDefault: the public Package.Save with its default go/packages resolver, packages.Load being an environment stub that reports 'not found' (as the go command does for a missing import; Package.Imports holds the nameless placeholder): Save returns an error naming the package, earlier files hold their print, the failing and later files keep their old contents."
CLAIMED["C20"]["note"] = "Byte-identity of unedited files is C01/C08 territory and not repeated; decorator.Load and successful go/packages loads (process execution) are outside: only the failure side of the default resolver is modelled."

# ---- round-5 additions
CLAIMED["C01"]["text"] += " Pipeline source 3 holds a multi-line generic instantiation; the directory harness forks over three source pairs (multi-line comment / multi-line raw string in one file on the line numbers of the other file's blank lines; a file ending in a comment behind a blank line) - the last two exposed two genuine defects of the *ast.Package path, repaired by fix commits 2abad06 and c87278c. VerifC01Hanging = VerifC02Hanging."
CLAIMED["C02"]["text"] += " The hanging harness also forks a comment above a clause that is itself separated from the clause by a blank line (it still belongs to the clause that follows)."
CLAIMED["C03"]["text"] += " The per-type round trip forks the kind of statement / expression leaf (explicit and implicit empty statements, Ellipsis without element); VerifC03CommentFields: two comments behind a struct field, value spec or import spec."
CLAIMED["C05"]["text"] += " VerifC05Interior: the decorations of an interior point of the parent (opening delimiter) followed by the first child's Before obey the same rule with After = None."
CLAIMED["C07"]["text"] += " VerifC07ShippedResolvers: the guess and simple resolvers against their documentation (map entry wins for every path, else last element / ErrPackageNotFound) and end to end with a mapped name (symbolic) that differs from a slash-less path. The duplicate-import harness also places the two specs in two import declarations."
CLAIMED["C15"]["text"] += " VerifC15LineDirective: the real pipeline on a source with a //line directive that moves the reported line numbers far beyond the physical line count (the parser's line infos are replayed into the engine's FileSet through the real AddLineColumnInfo). The gap lemma next to Bad nodes uses two items per gap (a comment on a line of its own in front of the Bad node) and requires the Bad node's extent to be unchanged."
CLAIMED["C12"]["text"] += " RestoreFile harness: the file may end in a block comment with nothing behind it; after a second RestoreFile (same or new FileRestorer) the first file's comments are still ordered and inside its file."

# ---- thorough-tier status at the end of the build round
for _p in ("C05", "C08", "C15", "C02", "C01", "C12"):
    CLAIMED[_p]["note"] += " Thorough tier: not re-run to completion on the final commit (see DESIGN.md section 4); the quick tier is what was shown clean on the final tree."
for _p in ("C07", "C04"):
    CLAIMED[_p]["note"] += " Thorough tier completed clean on the final commit (C07 630 s, C04 254 s)."

NOT_YET = "check not built yet in this round (work in progress; see DESIGN.md section 7 for the order)"

def main():
    props = [json.loads(l) for l in open('/verif/properties.jsonl')]
    checks, na = [], []
    for p in props:
        pid = p['id']
        if pid in CLAIMED:
            c = CLAIMED[pid]
            checks.append({
                "property_id": pid,
                "quick_cmd": f"checks/check {pid} quick",
                "thorough_cmd": f"checks/check {pid} thorough",
                "evidence_file": f"/verif/evidence/{pid}.json",
                "replay_cmd_template": f"checks/replay {pid} {{path}}",
                "engine": "gosym",
                "level_claimed": {"category": "model_checking", "text": c['text'], "design_ref": "DESIGN.md section " + c['design']},
                "level_note": c['note'],
                "technique": TECH,
            })
        else:
            na.append({"property_id": pid, "reason": NA.get(pid, NOT_YET)})
    m = {
        "version": 1,
        "setup_cmd": "checks/build.sh",
        "hooks": {"guard": "verif", "enable": "none needed: harnesses are injected with go/packages Overlay and `go test -overlay`; /repo is never written",
                  "baseline_off_cmd": "cd /repo && GOFLAGS=-mod=mod GOPROXY=off go test -vet=off -count=1 ./...",
                  "source_commits": [], "add_only": True},
        "engines": [{"name": "gosym", "path": "/verif/engine", "serves_properties": sorted(CLAIMED.keys()),
                     "kind_free_text": "path-forking symbolic executor for Go written against golang.org/x/tools/go/ssa; scalars as QF_BV terms, obligations discharged by z3 (cross-checked with z3-new/cvc5 in thorough), models replayed natively with go test -overlay"}],
        "checks": checks,
        "not_applicable": na,
        "notes": "All checks use one technique: solver-based bounded checking of the real code. See DESIGN.md.",
    }
    json.dump(m, open('/verif/MANIFEST.json', 'w'), indent=1)

NA = {}
if __name__ == '__main__':
    main()
