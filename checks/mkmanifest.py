#!/usr/bin/env python3
"""Regenerates /verif/MANIFEST.json from the table below (keeps it schema-valid at all times)."""
import json, os

TECH = "bounded symbolic execution of go/ssa (gosym) + SMT (QF_BV, z3; obligations unsat for all values within bounds), counterexamples replayed natively"

# id -> dict(text, note)  for claimed checks
CLAIMED = {
 "C03": dict(
  text="Per node type (all 53 non-Package types, generated from /repo/dst.go at check time): a generic undecorated instance (every bool flag and token kind symbolic, optional children present / all nil, lists of length 0-2) is restored by the real restoreNode to a positioned ast from an arbitrary restorer state, converted back by the real decorateNode, and the result must be deeply equal to the input for all flag values (solver obligation over every scalar), and restore again to an equal ast. This is the field/token-existence part of 'tokens survive'; the comment-conservation part under arbitrary formatting needs link() over fragment lists and is not claimed yet.",
  note="Decided at the ast interface under the parser/printer contracts P and PC of DESIGN.md section 3 (go/parser, go/printer, scanner normalisation such as CRLF/BOM are outside). Bounds: depth 1 children, lists <= 2.",
  design="5/C03"),
 "C04": dict(
  text="Per node type and per decoration point (forked): a generic instance with <= 2 decorations of forked kind (newline, line comment, one-line block comment; comment bodies opaque strings of any length < 65536) on that point is restored by the real restoreNode from an arbitrary restorer state (symbolic base, cursor, last line, freshness). Solver obligations: every comment decoration is rendered exactly once, in listing order, with its own text; it lies in the gap that the real fragmenter (addNodeFragments run on the restored ast) assigns to that (node, point) - after the preceding token/child, before the following one; Start before the node's first token, End after its last.",
  note="Reference for 'documented place' is the generated fragmenter, which the repo's TestPositions ties to the documented examples. Points that exist only conditionally (e.g. ChanType.Arrow without arrow) get the range check only. dstutil.Decorations / Decorations() accessors: not yet covered. Printer behaviour is contract PC.",
  design="5/C04"),
 "C05": dict(
  text="The exact code every generated restoreNode case runs between two siblings (applyDecorations(A.End), applySpace(A.After), applySpace(B.Before), applyDecorations(B.Start)) is executed symbolically from an arbitrary restorer state with symbolic spaces in {None,NewLine,EmptyLine} and forked End/Start decorations; the line breaks between consecutive positioned items are read from the real line table and must equal, capped at one blank line, the documented rule max(After,Before) with line comments / newline decorations contributing exactly their own break. For all cursor/base/length values (LIA/BV obligations).",
  note="Bounds: <= 1 (quick) / 2 (thorough) decorations per side. Printer (blank-line capping, where breaks are legal) is contract PC; expression-level NewLine splitting is printer behaviour and not decided here.",
  design="5/C05"),
 "C06": dict(
  text="Per node type: Clone of a generic instance (one distinct comment on every decoration point of the node and its children, symbolic spaces/flags, lists with spare capacity) shares no allocation, backing array or map with the original (engine heap), and restoring original and clone from the same arbitrary restorer state yields deeply equal asts, line tables, comments and cursor, so every field printing consults was copied; scribbling over the whole clone leaves the original's rendering unchanged; a node placed at two positions (6 shapes incl. deep/cross-parent) makes restore panic while the Clone variant restores both.",
  note="Bounds: children one level deep, lists <= 2. Object/Scope links are nil in generic instances (dropping them is visible only with Extras).",
  design="5/C06"),
 "C11": dict(
  text="Per node type: after the real restoreNode (Restorer.Map) and after the real decorateNode of the restored ast (Decorator.Map), every ast node reached by ast.Inspect has a dst counterpart of the corresponding type, every dst node maps back, the maps are mutually inverse, commute with parent/child structure, contain no nil keys and the trees have equal node counts.",
  note="Bounds: generic instances with children one level deep, lists <= 2, without import resolution (the selector-collapse case of resolved identifiers is not yet covered).",
  design="5/C11"),
 "C12": dict(
  text="Inductive invariant I of the restorer state (base<=cursor, fresh-line mark behind cursor, line table strictly increasing and behind the cursor, comments ordered and inside) is shown preserved from an arbitrary state satisfying I by applySpace, applyDecorations (all four decoration kinds incl. content-bounded multi-line block comments, File/Start special case, initial state) and literals (raw strings with newlines), and by restoreNode of a generic instance of every node type (symbolic spaces, flags, token kinds); the real fragmenter run on each restored ast must find token extents ordered, non-overlapping and inside the cursor range (exact agreement of token lengths). RestoreFile through the real go/token FileSet (symbolic base via a prior file): no panic, SetLines accepts the table, positions inside the file, two files in one FileSet disjoint.",
  note="'Order equals that of a fresh parse of the printed text' is replaced by ordering/non-overlap in the fragmenter's token order plus contract PC. Bounds: <= 2 (3 thorough) decorations per step, children depth 1.",
  design="5/C12"),
 "C13": dict(
  text="Per node type: for a generic dst instance with each documented-optional child nil in turn, all nil, or none nil (optional-ness read from dst.go's field comments at check time), the visit log of the real dst.Walk equals, through the restorer's node map, the visit log of go/ast's Walk on the restored ast: same nodes, same order, same nil calls, each node once; pruning at every visit index removes the same subtree in both; Inspect follows the same sequence.",
  note="Bounds: depth 2 trees, lists of 2. Mostly shape reasoning: the solver's share is path feasibility; equality of logs is decided on the engine's concrete heap.",
  design="5/C13"),
 "C15": dict(
  text="At the ast interface under parser contract P: the real DecorateFile+RestoreFile are executed on the shapes go/parser returns for broken input - the empty file with Package==NoPos (file sizes 0..3, arbitrary line table, symbolic FileSet base), a file whose only declaration is a BadDecl of symbolic extent - and restore/fragment/link/decorate are executed on generic instances of every node type with all token-existence flags symbolic (closers without position) and optional children missing; no path may reach a panic.",
  note="The claim is about P's clauses, not about all byte strings: go/parser and go/scanner are not executed symbolically. Shapes are hand-built from reading go/parser (go1.23).",
  design="5/C15"),
 "C19": dict(
  text="All paths of Append/Prepend/Replace/Clear/All are executed symbolically from go/ssa for every list state (len<=3, spare cap<=2, nil/empty), every argument shape (fresh array with spare capacity, view of the list's own elements, nil) and, in sequences of 2 (quick) / 4 (thorough) operations, against a reference []string; element bytes are solver-ranged, aliasing is decided on the engine's concrete heap; append growth capacity is forked {needed, needed+1}. Bounded model checking, not a proof.",
  note="Bounds: len<=3, spare<=2, argument len<=3, <=4 operations. Trusted: gosym's SSA semantics (validated by native replay of witness paths), z3.",
  design="5/C19"),
}


CLAIMED.update({
 "C07": dict(
  text="The real updateImports + restoreNode/restoreIdent are executed on files with one import block of 0-2 specs (name kinds none / symbolic alias / dot / blank, optional cgo spec), 1-2 (thorough 3) identifiers whose path is empty, local or one of three pool paths (plain, dotted, slashed), an optional alias override, and a resolver with symbolic package names, so that name conflicts, renaming and precedence are solver-decided. Obligations on the restored ast: each non-local identifier is a selector on the name bound by the single import of its path (bare only under a dot import), local/empty-path identifiers are bare, each used path is imported exactly once, blank and cgo imports are kept, unused ones removed, nothing else imported, ordinary import names pairwise distinct, override > source alias > resolved name. A path imported twice under two names must end up imported once.",
  note="Paths come from a concrete pool (map keys concrete), names/aliases are one symbolic byte. Bounds as stated; gopackages/gobuild resolvers (I/O) and the printed text (contract PC) are outside. 'Blocks that need no addition keep order and decorations' is checked by C08's no-op harness.",
  design="5/C07"),
 "C08": dict(
  text="Part (2) only: for sources that already import exactly what they use (1-2 specs incl. aliased, dot, blank and cgo specs with comments and spacing, non-colliding effective names, accurate resolver with symbolic names) the real updateImports leaves the import declaration deeply equal to what it was (specs, aliases, decorations, spacing, parentheses), the declaration list unchanged, and reports each package under its source name.",
  note="The qualified-identifier collapse/expand round trip through link()/mergeDecorations (part 1) and re-decoration of printed output are not covered yet.",
  design="5/C08"),
 "C17": dict(
  text="Fault position enumerated by forking over every resolver call of the run: (a) restore: package-name resolver failing at call k during RestoreFile of files with 0-1 import specs and 1-2 (3) path-carrying identifiers; (b) decorate: identifier resolver failing at call k during DecorateFile of a positioned file with 1-2 (3) qualified selectors. Obligations: error returned and errors.Is(err, injected), no tree returned, no panic, input tree deeply equal to its snapshot, and a fresh restorer/decorator with a working resolver yields a result deeply equal to the failure-free run.",
  note="The decorate-side harness is concrete apart from the failure position (file bytes and positions are fixed); the solver's share there is nil. Bounds as stated.",
  design="5/C17"),
 "C20": dict(
  text="The real Package.save (the function behind Save/SaveWithResolver, with the writer injected as the code allows) over 1-3 decorated files with Filenames filled as DecorateNode does, symbolic package names, and a resolver or writer failing at a forked position: the write log is exactly one write per file before the first failure, in order, to the file's recorded path, with that file's own print; the error is returned and wraps the cause; nothing is written after it. go/format.Node is an uninterpreted function (contract PC); witnesses are replayed natively against the real printer.",
  note="Byte-identity of unedited files is C01/C08 territory and not repeated; Load (go/packages I/O) is outside.",
  design="5/C20"),
})

NOT_YET = "check not built yet in this round (work in progress; see DESIGN.md section 7 for the order)"

def main():
    props = [json.loads(l) for l in open('/verif/properties.jsonl')]
    checks, na = [], []
    for p in props:
        pid = p['id']
        if pid in CLAIMED:
            c = CLAIMED[pid]
            checks.append({
                "property_id": pid,
                "quick_cmd": f"checks/check {pid} quick",
                "thorough_cmd": f"checks/check {pid} thorough",
                "evidence_file": f"/verif/evidence/{pid}.json",
                "replay_cmd_template": f"checks/replay {pid} {{path}}",
                "engine": "gosym",
                "level_claimed": {"category": "model_checking", "text": c['text'], "design_ref": "DESIGN.md section " + c['design']},
                "level_note": c['note'],
                "technique": TECH,
            })
        else:
            na.append({"property_id": pid, "reason": NA.get(pid, NOT_YET)})
    m = {
        "version": 1,
        "setup_cmd": "checks/build.sh",
        "hooks": {"guard": "verif", "enable": "none needed: harnesses are injected with go/packages Overlay and `go test -overlay`; /repo is never written",
                  "baseline_off_cmd": "cd /repo && GOFLAGS=-mod=mod GOPROXY=off go test -vet=off -count=1 ./...",
                  "source_commits": [], "add_only": True},
        "engines": [{"name": "gosym", "path": "/verif/engine", "serves_properties": sorted(CLAIMED.keys()),
                     "kind_free_text": "path-forking symbolic executor for Go written against golang.org/x/tools/go/ssa; scalars as QF_BV terms, obligations discharged by z3 (cross-checked with z3-new/cvc5 in thorough), models replayed natively with go test -overlay"}],
        "checks": checks,
        "not_applicable": na,
        "notes": "All checks use one technique: solver-based bounded checking of the real code. See DESIGN.md.",
    }
    json.dump(m, open('/verif/MANIFEST.json', 'w'), indent=1)

NA = {}
if __name__ == '__main__':
    main()
