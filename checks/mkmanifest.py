#!/usr/bin/env python3
"""Regenerates /verif/MANIFEST.json from the table below (keeps it schema-valid at all times)."""
import json, os

TECH = "bounded symbolic execution of go/ssa (gosym) + SMT (QF_BV, z3; obligations unsat for all values within bounds), counterexamples replayed natively"

# id -> dict(text, note)  for claimed checks
CLAIMED = {
 "C19": dict(
  text="All paths of Append/Prepend/Replace/Clear/All are executed symbolically from go/ssa for every list state (len<=3, spare cap<=2, nil/empty), every argument shape (fresh array with spare capacity, view of the list's own elements, nil) and, in sequences of 2 (quick) / 4 (thorough) operations, against a reference []string; element bytes are solver-ranged, aliasing is decided on the engine's concrete heap; append growth capacity is forked {needed, needed+1}. Bounded model checking, not a proof.",
  note="Bounds: len<=3, spare<=2, argument len<=3, <=4 operations. Trusted: gosym's SSA semantics (validated by native replay of witness paths), z3.",
  design="5/C19"),
}

NOT_YET = "check not built yet in this round (work in progress; see DESIGN.md section 7 for the order)"

def main():
    props = [json.loads(l) for l in open('/verif/properties.jsonl')]
    checks, na = [], []
    for p in props:
        pid = p['id']
        if pid in CLAIMED:
            c = CLAIMED[pid]
            checks.append({
                "property_id": pid,
                "quick_cmd": f"checks/check {pid} quick",
                "thorough_cmd": f"checks/check {pid} thorough",
                "evidence_file": f"/verif/evidence/{pid}.json",
                "replay_cmd_template": f"checks/replay {pid} {{path}}",
                "engine": "gosym",
                "level_claimed": {"category": "model_checking", "text": c['text'], "design_ref": "DESIGN.md section " + c['design']},
                "level_note": c['note'],
                "technique": TECH,
            })
        else:
            na.append({"property_id": pid, "reason": NA.get(pid, NOT_YET)})
    m = {
        "version": 1,
        "setup_cmd": "checks/build.sh",
        "hooks": {"guard": "verif", "enable": "none needed: harnesses are injected with go/packages Overlay and `go test -overlay`; /repo is never written",
                  "baseline_off_cmd": "cd /repo && GOFLAGS=-mod=mod GOPROXY=off go test -vet=off -count=1 ./...",
                  "source_commits": [], "add_only": True},
        "engines": [{"name": "gosym", "path": "/verif/engine", "serves_properties": sorted(CLAIMED.keys()),
                     "kind_free_text": "path-forking symbolic executor for Go written against golang.org/x/tools/go/ssa; scalars as QF_BV terms, obligations discharged by z3 (cross-checked with z3-new/cvc5 in thorough), models replayed natively with go test -overlay"}],
        "checks": checks,
        "not_applicable": na,
        "notes": "All checks use one technique: solver-based bounded checking of the real code. See DESIGN.md.",
    }
    json.dump(m, open('/verif/MANIFEST.json', 'w'), indent=1)

NA = {}
if __name__ == '__main__':
    main()
