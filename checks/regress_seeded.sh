#!/bin/bash
# Re-runs, for every stored seeded change, the harnesses named in its detection field (or the whole quick
# check of its property when none is named) against a scratch worktree of /repo with the change applied.
# Output: one line per change: <id> <property> caught|MISSED <harnesses>.  usage: checks/regress_seeded.sh [jobs] [ids...]
ROOT="$(cd "$(dirname "$0")/.." && pwd)"
cd "$ROOT"
jobs=${1:-4}; shift
ids=${*:-$(ls seeded | grep -v '\.txt$')}
export GOFLAGS=-mod=mod GOPROXY=off GOSUMDB=off GOTOOLCHAIN=local
one() {
  id=$1; slot=$2
  wt=/tmp/rg_$slot
  meta=seeded/$id/meta.json
  prop=$(python3 -c "import json;print(json.load(open('$meta'))['breaks_property'])")
  names=$(python3 - "$meta" <<'PY'
import json,re,sys
m=json.load(open(sys.argv[1]))
n=sorted(set(re.findall(r'Verif[A-Za-z0-9_]+', m.get('detection',''))))
print(' '.join(n))
PY
)
  ( cd $wt && git checkout -q -- . && git clean -qfd && git apply "$ROOT/seeded/$id/patch.diff" ) || { echo "$id $prop PATCH-FAILED"; return; }
  caught=0; ran=""
  if [ -n "$names" ]; then
    for p in $(echo $names | tr ' ' '\n' | grep -o 'VerifC[0-9][0-9]' | sed 's/Verif//' | sort -u); do
      re=$(echo $names | tr ' ' '\n' | grep "^Verif$p" | paste -sd'|')
      out=$(timeout 1500 bin/gosym -root "$ROOT" -tier quick -repo $wt $(grep -v "^#" checks/conf/$p) -run "^($re)" -property $p -timeout 1200 -evidence /tmp/rg_ev_$slot.json -work /tmp/rg_work_$slot 2>&1)
      ran="$ran $p:$re"
      echo "$out" | grep -q '^VIOLATION' && caught=1
    done
  else
    # no harness named: the checks named as "checks/check Cxx" in the detection text, else the property's own
    cks=$(python3 -c "
import json,re
m=json.load(open('$meta')); c=sorted(set(re.findall(r'checks/check (C[0-9][0-9])', m.get('detection',''))))
print(' '.join(c) if c else m['breaks_property'])")
    for c in $cks; do
      out=$(VERIF_REPO=$wt VERIF_EVIDENCE=/tmp/rg_ev_$slot.json checks/check $c quick 2>&1)
      ran="$ran $c:all"
      echo "$out" | grep -q '^VIOLATION' && caught=1
    done
  fi
  if [ $caught = 1 ]; then echo "$id $prop caught$ran"; else echo "$id $prop MISSED$ran"; fi
}
for s in $(seq 1 $jobs); do
  git -C /repo worktree add --detach /tmp/rg_$s HEAD -f >/dev/null 2>&1
done
i=0
for id in $ids; do
  i=$((i+1)); slot=$(( (i-1) % jobs + 1 ))
  echo "$id" >> /tmp/rg_list_$slot
done
for s in $(seq 1 $jobs); do
  ( for id in $(cat /tmp/rg_list_$s 2>/dev/null); do one $id $s; done ) &
done
wait
for s in $(seq 1 $jobs); do
  git -C /repo worktree remove --force /tmp/rg_$s >/dev/null 2>&1
  rm -rf /tmp/rg_list_$s /tmp/rg_ev_$s.json /tmp/rg_work_$s
done
git -C /repo worktree prune
