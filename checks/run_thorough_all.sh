#!/bin/bash
# runs every claimed check in the thorough tier, one after the other, and prints a summary line each
ROOT="$(cd "$(dirname "$0")/.." && pwd)"
cd "$ROOT"
for p in ${*:-C19 C20 C14 C11 C13 C17 C16 C18 C09 C10 C06 C03 C07 C04 C12 C05 C08 C15 C02 C01}; do
  s=$(date +%s)
  checks/check $p thorough > "$ROOT/thorough_$p.log" 2>&1; ec=$?
  e=$(date +%s)
  echo "$p exit=$ec $((e-s))s inconclusive=$(grep -c '^INCONCLUSIVE' "$ROOT/thorough_$p.log") $(grep '^\['$p'\]' "$ROOT/thorough_$p.log" | cut -c1-200)"
done
