package main

import (
	"fmt"
	"sync"
	"sort"
	"strings"
	"time"

	"golang.org/x/tools/go/ssa"
)

var verboseCrash bool

type inputDesc struct {
	Name   string `json:"name"`
	Kind   string `json:"kind"`
	Prefix string `json:"prefix,omitempty"`
	N      int    `json:"n,omitempty"`
}

type choiceRec struct {
	Name string
	Val  int
}

// Replay is what the native runner needs to re-execute one path of a harness concretely.
type Replay struct {
	Harness string           `json:"harness"`
	Vals    map[string]int64 `json:"vals"`
	Choices []int            `json:"choices"`
	Obs     []ObsVal         `json:"obs,omitempty"`
	Expect  string           `json:"expect,omitempty"` // "ok" | "assert:<id>" | "panic"
}
type ObsVal struct {
	Name string `json:"name"`
	Val  int64  `json:"val"`
}

type sample struct {
	ID   string `json:"id"`
	Term string `json:"obligation"`
}

type HarnessStats struct {
	Name         string
	Paths        int
	PathsDone    int
	Infeasible   int
	Steps        int
	Forks        int
	FeasQueries  int
	Obligations  int
	Discharged   int
	Trivial      int
	Inconclusive []string
	Violations   []*Violation
	Reached      map[string]int
	Assumptions  map[string]bool
	Samples      []sample
	sampleSeen   map[string]bool
	Funcs        map[string]int // function -> instructions executed
	SolverTime   time.Duration
	SolverQ      int
	Wall         time.Duration
	Witnesses    []*Replay // models of completed paths for native validation
	Cross        map[string]string
	IntQueries   int
	CrossChecked int
	CrossDisagree int
	RaceEvents   int
	BVQueries    int
	PanicPaths   int
	MaxPathSteps int
}

func (s *HarnessStats) noteRace(n int) {
	if n > s.RaceEvents {
		s.RaceEvents = n
	}
}

func (s *HarnessStats) noteAssumption(a string) {
	if s.Assumptions == nil {
		s.Assumptions = map[string]bool{}
	}
	s.Assumptions[a] = true
}

func (s *HarnessStats) noteSample(id string, c *Term) {
	if s.sampleSeen == nil {
		s.sampleSeen = map[string]bool{}
	}
	if s.sampleSeen[id] || len(s.Samples) >= 4 {
		return
	}
	s.sampleSeen[id] = true
	s.Samples = append(s.Samples, sample{ID: id, Term: c.str(5)})
}

type RunConfig struct {
	MaxSteps   int
	MaxDepth   int
	MaxPaths   int
	Witnesses  int // how many completed paths get a model for native validation
	TimeoutMs  int
	SolverName string
	Deadline   time.Time
	Tier       int
	PathWorkers int
	Cross      []string
}

func (ex *Exec) resetPath(forced []int64) {
	ex.pc = nil
	ex.model = map[string]uint64{}
	ex.trace = nil
	ex.tracePos = 0
	ex.forced = forced
	ex.pending = nil
	ex.steps = 0
	ex.objCount = 0
	ex.mapCount = 0
	ex.nondetOcc = map[string]int{}
	ex.obsLog = nil
	ex.reached = map[string]bool{}
	ex.events = nil
	ex.inputs = nil
	ex.choiceLog = nil
	ex.globals = map[*ssa.Global]*Obj{}
	ex.onceDone = map[string]bool{}
	ex.capFork = false
	ex.mapOrderFork = false
	ex.curFrame = nil
	ex.unknownBranches = 0
	ex.formatCalls = 0
	ex.fs = map[string]*fsFile{}
	ex.fsHandles = map[*Obj]*fsHandle{}
	ex.fsLog = nil
	ex.traced = map[*Obj]bool{}
	ex.tracedMaps = map[*MapV]bool{}
	ex.curThread = 0
	ex.raceEvents = nil
	ex.formatFailAt = -1
}

func (ex *Exec) buildReplay(m map[string]uint64) *Replay {
	r := &Replay{Harness: ex.harness, Vals: map[string]int64{}}
	get := func(name string, w int) int64 {
		v := m[name]
		t := ex.tf.Const(w, v)
		return t.SVal()
	}
	for _, in := range ex.inputs {
		switch in.Kind {
		case "int":
			r.Vals[in.Name] = get(in.Name, 64)
		case "bool":
			r.Vals[in.Name] = int64(m[in.Name] & 1)
		case "opaque":
			r.Vals[in.Name+".len"] = get(in.Name+".len", 64)
			if rv, ok := m[in.Name+".runes"]; ok {
				r.Vals[in.Name+".runes"] = int64(rv)
			}
		case "bytes":
			for i := 0; i < in.N; i++ {
				n := fmt.Sprintf("%s.b%d", in.Name, i)
				v, ok := m[n]
				if !ok {
					v = 'a'
				}
				r.Vals[n] = int64(v & 0xff)
			}
		}
	}
	for _, c := range ex.choiceLog {
		r.Choices = append(r.Choices, c.Val)
	}
	memo := map[int]uint64{}
	for _, o := range ex.obsLog {
		v := o.T.Eval(m, memo)
		r.Obs = append(r.Obs, ObsVal{o.Name, ex.tf.Const(o.T.w, v).SVal()})
	}
	return r
}

// initPackages runs the package initialisers of the packages whose globals harnesses depend on.
func (ex *Exec) initPackages(pkgs []*ssa.Package) {
	for _, p := range pkgs {
		if fn := p.Func("init"); fn != nil && fn.Blocks != nil {
			ex.runInit(fn)
		}
	}
}

func (ex *Exec) runInit(fn *ssa.Function) {
	// execute init but skip calls to other packages' init functions
	ex.callSSA(nil, fn, nil, nil)
}

// RunHarness explores all paths of one harness function.
func RunHarness(prog *ssa.Program, fn *ssa.Function, initPkgs []*ssa.Package, cfg RunConfig) *HarnessStats {
	start := time.Now()
	nw := cfg.PathWorkers
	if nw < 1 {
		nw = 1
	}
	var mu sync.Mutex
	cond := sync.NewCond(&mu)
	work := [][]int64{nil}
	active := 0
	paths := 0
	var stop string
	parts := make([]*HarnessStats, nw)
	var wg sync.WaitGroup
	for w := 0; w < nw; w++ {
		wg.Add(1)
		go func(w int) {
			defer wg.Done()
			st := &HarnessStats{Name: fn.Name(), Reached: map[string]int{}, Funcs: map[string]int{}}
			parts[w] = st
			tf := NewTermFactory()
			solver, err := NewSolver(cfg.SolverName, tf, cfg.TimeoutMs)
			if err != nil {
				st.Inconclusive = append(st.Inconclusive, "cannot start solver: "+err.Error())
				return
			}
			defer solver.Close()
			isolver, err := NewIntSolver("z3", tf, cfg.TimeoutMs)
			if err != nil {
				isolver = nil
			} else {
				defer isolver.Close()
			}
			var xs []*Solver
			for _, n := range cfg.Cross {
				if s2, err := NewSolver(n, tf, cfg.TimeoutMs); err == nil {
					xs = append(xs, s2)
					defer s2.Close()
				}
			}
			ex := &Exec{prog: prog, tf: tf, solver: solver, isolver: isolver, xsolvers: xs, maxSteps: cfg.MaxSteps, maxDepth: cfg.MaxDepth, harness: fn.Name(), stats: st, tier: cfg.Tier, deadline: cfg.Deadline}
			ex.initIntrinsics()
			ex.initPkgs = initPkgs
			defer func() {
				st.SolverTime = solver.Time
				st.SolverQ = solver.Queries
				if isolver != nil {
					st.SolverTime += isolver.Time
					st.SolverQ += isolver.Queries
					solver.Errors += isolver.Errors
				}
				if solver.Errors > 0 {
					st.Inconclusive = append(st.Inconclusive, fmt.Sprintf("solver printed %d (error lines", solver.Errors))
				}
			}()
			for {
				mu.Lock()
				for len(work) == 0 && active > 0 && stop == "" {
					cond.Wait()
				}
				if stop != "" || (len(work) == 0 && active == 0) {
					mu.Unlock()
					cond.Broadcast()
					return
				}
				if paths >= cfg.MaxPaths {
					stop = fmt.Sprintf("path budget %d exhausted with %d pending", cfg.MaxPaths, len(work))
					mu.Unlock()
					cond.Broadcast()
					return
				}
				if !cfg.Deadline.IsZero() && time.Now().After(cfg.Deadline) {
					stop = fmt.Sprintf("time budget exhausted with %d pending paths", len(work))
					mu.Unlock()
					cond.Broadcast()
					return
				}
				forced := work[len(work)-1]
				work = work[:len(work)-1]
				active++
				paths++
				mu.Unlock()
				st.Paths++
				func() {
					defer func() {
						if r := recover(); r != nil {
							st.Inconclusive = append(st.Inconclusive, fmt.Sprintf("engine crash: %v", r))
							ex.pending = nil
							if verboseCrash {
								panic(r)
							}
						}
					}()
					ex.runPath(fn, forced, cfg)
				}()
				mu.Lock()
				work = append(work, ex.pending...)
				active--
				mu.Unlock()
				cond.Broadcast()
			}
		}(w)
	}
	wg.Wait()
	st := mergeStats(fn.Name(), parts)
	if stop != "" {
		st.Inconclusive = append(st.Inconclusive, stop)
	}
	st.Wall = time.Since(start)
	return st
}

func mergeStats(name string, parts []*HarnessStats) *HarnessStats {
	st := &HarnessStats{Name: name, Reached: map[string]int{}, Funcs: map[string]int{}, Assumptions: map[string]bool{}}
	for _, p := range parts {
		if p == nil {
			continue
		}
		st.Paths += p.Paths
		st.PathsDone += p.PathsDone
		st.Infeasible += p.Infeasible
		st.Steps += p.Steps
		st.Forks += p.Forks
		st.FeasQueries += p.FeasQueries
		st.Obligations += p.Obligations
		st.Discharged += p.Discharged
		st.Trivial += p.Trivial
		st.Inconclusive = append(st.Inconclusive, p.Inconclusive...)
		st.Violations = append(st.Violations, p.Violations...)
		for k, v := range p.Reached {
			st.Reached[k] += v
		}
		for k := range p.Assumptions {
			st.Assumptions[k] = true
		}
		for _, s := range p.Samples {
			if len(st.Samples) < 4 {
				st.Samples = append(st.Samples, s)
			}
		}
		for k, v := range p.Funcs {
			st.Funcs[k] += v
		}
		st.SolverTime += p.SolverTime
		st.SolverQ += p.SolverQ
		if len(st.Witnesses) < 3 {
			st.Witnesses = append(st.Witnesses, p.Witnesses...)
		}
		st.PanicPaths += p.PanicPaths
		if p.MaxPathSteps > st.MaxPathSteps {
			st.MaxPathSteps = p.MaxPathSteps
		}
		st.IntQueries += p.IntQueries
		st.CrossChecked += p.CrossChecked
		st.CrossDisagree += p.CrossDisagree
		st.BVQueries += p.BVQueries
		if p.RaceEvents > st.RaceEvents {
			st.RaceEvents = p.RaceEvents
		}
	}
	if len(st.Witnesses) > 3 {
		st.Witnesses = st.Witnesses[:3]
	}
	return st
}

func (ex *Exec) runPath(fn *ssa.Function, forced []int64, cfg RunConfig) {
	st := ex.stats
	ex.resetPath(forced)
	status := "ok"
	var panicMsg string
	func() {
		defer func() {
			if r := recover(); r != nil {
				switch x := r.(type) {
				case pathEnd:
					status = x.kind
					panicMsg = x.msg
				case *goPanic:
					status = "panic"
					panicMsg = x.msg
				default:
					if verboseCrash {
						panic(r)
					}
					status = "unsupported"
					where := ""
					if ex.curFrame != nil {
						where = " in " + ex.curFrame.fn.String()
					}
					panicMsg = fmt.Sprintf("engine crash: %v%s", r, where)
				}
			}
		}()
		for _, p := range ex.initPkgs {
			if f := p.Func("init"); f != nil && f.Blocks != nil {
				ex.callSSA(nil, f, nil, nil)
			}
		}
		ex.steps = 0
		ex.callSSA(nil, fn, nil, nil)
	}()
	st.Steps += ex.steps
	if ex.steps > st.MaxPathSteps {
		st.MaxPathSteps = ex.steps
	}
	switch status {
	case "infeasible":
		st.Infeasible++
		return
	case "done":
		// the path ended at an assertion that fails for every value (already recorded as a violation)
		st.PathsDone++
		return
	case "unsupported":
		st.Inconclusive = append(st.Inconclusive, "unsupported: "+panicMsg)
		return
	case "budget":
		st.Inconclusive = append(st.Inconclusive, "budget: "+panicMsg)
		return
	case "panic":
		// an unexpected Go panic on a feasible path is a violation of the implicit no-panic obligation
		st.PanicPaths++
		st.Obligations++
		r, m := ex.check(ex.pc, true)
		if r == Sat {
			ex.violation("panic", "no-panic", "panic: "+panicMsg, m)
		} else if r == Unknown {
			st.Inconclusive = append(st.Inconclusive, "solver unknown on panic path: "+panicMsg)
		} else {
			st.Discharged++ // path was not feasible after all
		}
		return
	}
	st.PathsDone++
	for l := range ex.reached {
		st.Reached[l]++
	}
	if ex.unknownBranches > 0 {
		st.Inconclusive = append(st.Inconclusive, fmt.Sprintf("%d branch feasibility queries returned unknown", ex.unknownBranches))
	}
	if len(st.Witnesses) < cfg.Witnesses {
		r, m := ex.check(ex.pc, true)
		if r == Sat {
			rp := ex.buildReplay(m)
			rp.Expect = "ok"
			st.Witnesses = append(st.Witnesses, rp)
		}
	}
}

func summarize(st *HarnessStats) string {
	inc := ""
	if len(st.Inconclusive) > 0 {
		seen := map[string]int{}
		for _, s := range st.Inconclusive {
			seen[s]++
		}
		var ks []string
		for k, n := range seen {
			ks = append(ks, fmt.Sprintf("%s (x%d)", k, n))
		}
		sort.Strings(ks)
		inc = " INCONCLUSIVE: " + strings.Join(ks, "; ")
	}
	return fmt.Sprintf("[%s] paths=%d done=%d infeasible=%d steps=%d obligations=%d discharged=%d violations=%d solverQ=%d solver=%.2fs wall=%.2fs%s",
		st.Name, st.Paths, st.PathsDone, st.Infeasible, st.Steps, st.Obligations, st.Discharged, len(st.Violations), st.SolverQ, st.SolverTime.Seconds(), st.Wall.Seconds(), inc)
}
