package main

import (
	"fmt"
	"time"
	"unicode/utf8"
	"go/constant"
	"go/token"
	"go/types"
	"strings"

	"golang.org/x/tools/go/ssa"
)

// pathEnd aborts the current path (not a Go-level panic).
type pathEnd struct {
	kind string // "infeasible", "unsupported", "budget", "done"
	msg  string
}

// goPanic is a Go-level panic travelling through interpreted frames.
type goPanic struct {
	val     Value // IfaceV
	msg     string
	runtime bool
}

type deferred struct {
	fn   Value
	args []Value
	site ssa.Instruction
}

type Frame struct {
	fn        *ssa.Function
	env       map[ssa.Value]Value
	block     *ssa.BasicBlock
	prev      *ssa.BasicBlock
	defers    []*deferred
	panicking bool
	panicVal  *goPanic
	result    Value
	caller    *Frame
	depth     int
}

type decision struct {
	val int64
}

// Violation describes a failed obligation with a model.
type Violation struct {
	Harness string            `json:"harness"`
	ID      string            `json:"id"`
	Kind    string            `json:"kind"` // "assert" | "panic"
	Msg     string            `json:"msg"`
	Model   map[string]uint64 `json:"model"`
	Trace   []int64           `json:"trace"`
	Where   string            `json:"where"`
	Replay  *Replay           `json:"replay"`
}

type Exec struct {
	prog    *ssa.Program
	tf      *TermFactory
	solver  *Solver
	isolver *Solver
	xsolvers []*Solver
	globals map[*ssa.Global]*Obj
	initDone map[*ssa.Package]bool

	// per path
	pc        []*Term
	model     map[string]uint64 // a model of pc (nil if unknown)
	trace     []decision
	tracePos  int
	forced    []int64
	pending   [][]int64 // alternatives discovered on this path
	steps     int
	objCount  int
	mapCount  int
	nondetOcc map[string]int
	names     map[string]bool
	obsLog    []obsEntry
	reached   map[string]bool
	inconcl   []string
	strNames  map[string]*strDesc
	events    []string

	// config
	maxSteps  int
	maxDepth  int
	harness   string
	stats     *HarnessStats
	intr      map[string]intrinsic
	curFrame  *Frame
	unknownBranches int
	lastModel    map[string]uint64
	lastModelFor *Term
	mapOrderFork bool
	capFork      bool
	lastDiff     string
	tier         int
	fs           map[string]*fsFile
	fsHandles    map[*Obj]*fsHandle
	fsLog        []string
	traced       map[*Obj]bool
	tracedMaps   map[*MapV]bool
	curThread    int
	raceEvents   []raceEvent
	raceQueries  int
	formatCalls  int
	formatFailAt int
	deadline     time.Time
	inputs       []inputDesc
	choiceLog    []choiceRec
	onceDone     map[string]bool
	eventHook    func(kind string, p PtrV)
	initPkgs     []*ssa.Package
}

type obsEntry struct {
	Name string
	T    *Term
}

type strDesc struct {
	Kind   string // "opaque" | "bytes"
	Prefix string
	LenVar string
	N      int
}

func (ex *Exec) unsupported(msg string) {
	where := ""
	if ex.curFrame != nil {
		where = " in " + ex.curFrame.fn.String()
	}
	panic(pathEnd{"unsupported", msg + where})
}

func (ex *Exec) goPanicRuntime(msg string) {
	panic(&goPanic{msg: "runtime error: " + msg, runtime: true, val: IfaceV{t: types.Typ[types.String], v: ex.cstr("runtime error: " + msg)}})
}

// addPC adds a constraint known to be consistent with pc.
func (ex *Exec) addPC(c *Term) {
	if c.IsTrue() {
		return
	}
	ex.pc = append(ex.pc, c)
	if ex.model != nil {
		if c.Eval(ex.model, map[int]uint64{}) != 1 {
			ex.model = nil
		}
	}
}

// check routes a query to the integer (LIA) solver when every term is overflow-free ("safe"), which
// makes the integer reading exactly equivalent to the bit-vector one, and to the bit-vector solver otherwise.
func (ex *Exec) check(q []*Term, wantModel bool) (SatResult, map[string]uint64) {
	if ex.isolver != nil {
		safe := true
		for _, t := range q {
			if !t.safe {
				safe = false
				break
			}
		}
		if safe {
			ex.stats.IntQueries++
			return ex.isolver.Check(q, wantModel)
		}
	}
	ex.stats.BVQueries++
	return ex.solver.Check(q, wantModel)
}

// feasible checks whether pc ∧ c is satisfiable. Unknown counts as feasible (no claim is made from it).
func (ex *Exec) feasible(c *Term) bool {
	if c.IsTrue() {
		return true
	}
	if c.IsFalse() {
		return false
	}
	if ex.model != nil && c.Eval(ex.model, map[int]uint64{}) == 1 {
		return true
	}
	q := append(append([]*Term{}, ex.pc...), c)
	r, m := ex.check(q, true)
	ex.stats.FeasQueries++
	switch r {
	case Unsat:
		return false
	case Sat:
		ex.lastModel = m
		ex.lastModelFor = c
		return true
	}
	ex.unknownBranches++
	return true
}

// decide returns the next forced decision if replaying, else ok=false.
func (ex *Exec) nextForced() (int64, bool) {
	if ex.tracePos < len(ex.forced) {
		v := ex.forced[ex.tracePos]
		ex.tracePos++
		ex.trace = append(ex.trace, decision{v})
		return v, true
	}
	return 0, false
}

func (ex *Exec) record(v int64, alts ...int64) {
	cur := make([]int64, len(ex.trace))
	for i, d := range ex.trace {
		cur[i] = d.val
	}
	for _, a := range alts {
		alt := append(append([]int64{}, cur...), a)
		ex.pending = append(ex.pending, alt)
	}
	ex.trace = append(ex.trace, decision{v})
	ex.tracePos++
}

// branch decides a symbolic condition, forking when both sides are feasible.
func (ex *Exec) branch(c *Term) bool {
	if c.IsTrue() {
		return true
	}
	if c.IsFalse() {
		return false
	}
	if v, ok := ex.nextForced(); ok {
		if v == 1 {
			ex.addPC(c)
			return true
		}
		ex.addPC(ex.tf.Not(c))
		return false
	}
	nc := ex.tf.Not(c)
	ex.lastModel = nil
	ft := ex.feasible(c)
	var mt map[string]uint64
	if ft && ex.lastModelFor == c {
		mt = ex.lastModel
	}
	if !ft {
		ex.record(0)
		ex.addPC(nc)
		return false
	}
	ex.lastModel = nil
	ff := ex.feasible(nc)
	if !ff {
		ex.record(1)
		ex.addPC(c)
		if mt != nil {
			ex.model = mt
		}
		return true
	}
	ex.stats.Forks++
	ex.record(1, 0)
	ex.addPC(c)
	if mt != nil {
		ex.model = mt
	}
	return true
}

// choice is an n-way unconditional fork.
func (ex *Exec) choice(n int) int {
	if n <= 0 {
		panic(pathEnd{"infeasible", "choice over empty set"})
	}
	if v, ok := ex.nextForced(); ok {
		return int(v)
	}
	alts := make([]int64, 0, n-1)
	for i := 1; i < n; i++ {
		alts = append(alts, int64(i))
	}
	if n > 1 {
		ex.stats.Forks += n - 1
	}
	ex.record(0, alts...)
	return 0
}

// concretize forks over all feasible values of t (at most limit).
func (ex *Exec) concretize(t *Term, what string) int64 {
	if t.IsConst() {
		return t.SVal()
	}
	if v, ok := ex.nextForced(); ok {
		ex.addPC(ex.tf.Eq(t, ex.tf.Const(t.w, uint64(v))))
		return v
	}
	const limit = 40
	var vals []int64
	excl := []*Term{}
	for {
		q := append(append([]*Term{}, ex.pc...), excl...)
		// need t in the query to get its value
		probe := ex.tf.Var("$probe", t.w)
		q = append(q, ex.tf.Eq(probe, t))
		r, m := ex.check(q, true)
		ex.stats.FeasQueries++
		if r == Unsat {
			break
		}
		if r == Unknown {
			ex.unsupported("concretize: solver unknown for " + what)
		}
		v := m["$probe"]
		c := ex.tf.Const(t.w, v)
		vals = append(vals, c.SVal())
		excl = append(excl, ex.tf.Not(ex.tf.Eq(t, c)))
		if len(vals) > limit {
			ex.unsupported(fmt.Sprintf("concretize: more than %d feasible values for %s", limit, what))
		}
	}
	if len(vals) == 0 {
		panic(pathEnd{"infeasible", "concretize: no value"})
	}
	if len(vals) > 1 {
		ex.stats.Forks += len(vals) - 1
	}
	ex.record(vals[0], vals[1:]...)
	ex.addPC(ex.tf.Eq(t, ex.tf.Const(t.w, uint64(vals[0]))))
	return vals[0]
}

// ---------------------------------------------------------------------------------------------

func (ex *Exec) constValue(c *ssa.Const) Value {
	t := c.Type()
	if c.Value == nil {
		return ex.zero(t)
	}
	switch u := t.Underlying().(type) {
	case *types.Basic:
		switch {
		case u.Info()&types.IsBoolean != 0:
			return ex.tf.Bool(constant.BoolVal(c.Value))
		case u.Info()&types.IsString != 0:
			return ex.cstr(constant.StringVal(c.Value))
		case u.Info()&types.IsInteger != 0:
			w, _, _ := intWidth(u)
			if i, ok := constant.Int64Val(constant.ToInt(c.Value)); ok {
				return ex.tf.Const(w, uint64(i))
			}
			u64, _ := constant.Uint64Val(constant.ToInt(c.Value))
			return ex.tf.Const(w, u64)
		case u.Info()&types.IsFloat != 0:
			f, _ := constant.Float64Val(c.Value)
			return FloatV(f)
		}
	}
	ex.unsupported("const of type " + t.String())
	return nil
}

func (ex *Exec) get(fr *Frame, v ssa.Value) Value {
	switch x := v.(type) {
	case *ssa.Const:
		return ex.constValue(x)
	case *ssa.Global:
		return PtrV{obj: ex.global(x)}
	case *ssa.Function:
		return &FuncV{fn: x}
	case *ssa.Builtin:
		return &FuncV{builtin: x}
	}
	if r, ok := fr.env[v]; ok {
		return r
	}
	panic(fmt.Sprintf("get: no value for %s (%T) in %s", v.Name(), v, fr.fn))
}

func (ex *Exec) global(g *ssa.Global) *Obj {
	if o, ok := ex.globals[g]; ok {
		return o
	}
	et := g.Type().(*types.Pointer).Elem()
	o := ex.newObj(ex.zero(et), et, "global "+g.String())
	ex.globals[g] = o
	return o
}

func (ex *Exec) call(caller *Frame, fnv Value, args []Value, site ssa.Instruction) Value {
	f, ok := fnv.(*FuncV)
	if !ok || f == nil {
		ex.goPanicRuntime("call of nil function")
	}
	if f.builtin != nil {
		return ex.callBuiltin(caller, f.builtin, args, site)
	}
	if f.native != nil {
		return f.native(ex, caller, args)
	}
	fn := f.fn
	name := fn.String()
	if fn.Origin() != nil {
		name = fn.Origin().String()
	}
	if in, ok := ex.intr[name]; ok {
		return in(ex, caller, args)
	}
	if fn.Synthetic == "package initializer" {
		return nil // other packages' initialisers are run (or deliberately not run) by the driver
	}
	if strings.HasPrefix(fn.Name(), "vf") && fn.Pkg != nil {
		if in, ok := ex.intr["vf:"+fn.Name()]; ok {
			return in(ex, caller, args)
		}
	}
	if fn.Blocks == nil {
		ex.unsupported("call of function without body: " + name)
	}
	return ex.callSSA(caller, fn, args, f.free)
}

func (ex *Exec) callSSA(caller *Frame, fn *ssa.Function, args []Value, free []Value) Value {
	depth := 0
	if caller != nil {
		depth = caller.depth + 1
	}
	if depth > ex.maxDepth {
		panic(pathEnd{"budget", "call depth exceeded in " + fn.String()})
	}
	fr := &Frame{fn: fn, env: make(map[ssa.Value]Value, 16), caller: caller, depth: depth}
	for i, p := range fn.Params {
		fr.env[p] = args[i]
	}
	for i, fv := range fn.FreeVars {
		fr.env[fv] = free[i]
	}
	fr.block = fn.Blocks[0]
	saved := ex.curFrame
	for fr.block != nil {
		ex.runFrame(fr)
	}
	ex.curFrame = saved
	if fr.result == nil && fn.Signature.Results().Len() > 0 {
		// recovered panic without Recover block: zero results
		res := fn.Signature.Results()
		if res.Len() == 1 {
			return ex.zero(res.At(0).Type())
		}
		return ex.zero(res)
	}
	return fr.result
}

func (ex *Exec) runFrame(fr *Frame) {
	defer func() {
		if fr.block == nil {
			return
		}
		r := recover()
		if r == nil {
			return
		}
		gp, ok := r.(*goPanic)
		if !ok {
			panic(r) // pathEnd or engine bug: propagate
		}
		fr.panicking = true
		fr.panicVal = gp
		ex.runDefers(fr)
		fr.block = fr.fn.Recover
	}()
	for {
		ex.curFrame = fr
		jumped := false
		n := 0
		for _, instr := range fr.block.Instrs {
			ex.steps++
			n++
			if ex.steps > ex.maxSteps {
				panic(pathEnd{"budget", "step budget exceeded"})
			}
			if ex.steps&1023 == 0 && !ex.deadline.IsZero() && time.Now().After(ex.deadline) {
				panic(pathEnd{"budget", "time budget exhausted inside a path"})
			}
			k := ex.visit(fr, instr)
			if k == kReturn {
				ex.stats.Funcs[fr.fn.String()] += n
				fr.block = nil
				return
			}
			if k == kJump {
				jumped = true
				break
			}
		}
		ex.stats.Funcs[fr.fn.String()] += n
		if !jumped {
			panic("basic block without terminator in " + fr.fn.String())
		}
	}
}

func (ex *Exec) runDefers(fr *Frame) {
	for i := len(fr.defers) - 1; i >= 0; i-- {
		d := fr.defers[i]
		fr.defers = fr.defers[:i]
		ex.runDefer(fr, d)
	}
	fr.defers = nil
	if fr.panicking {
		panic(fr.panicVal)
	}
}

func (ex *Exec) runDefer(fr *Frame, d *deferred) {
	ok := false
	defer func() {
		if !ok {
			r := recover()
			gp, isgp := r.(*goPanic)
			if !isgp {
				panic(r)
			}
			fr.panicking = true
			fr.panicVal = gp
		}
	}()
	ex.call(fr, d.fn, d.args, d.site)
	ex.curFrame = fr
	ok = true
}

const (
	kNext = iota
	kJump
	kReturn
)

func (ex *Exec) visit(fr *Frame, instr ssa.Instruction) int {
	switch in := instr.(type) {
	case *ssa.DebugRef:
	case *ssa.UnOp:
		fr.env[in] = ex.unop(fr, in)
	case *ssa.BinOp:
		fr.env[in] = ex.binop(in.Op, in.X.Type(), ex.get(fr, in.X), ex.get(fr, in.Y))
	case *ssa.Call:
		fn, args := ex.prepareCall(fr, &in.Call)
		r := ex.call(fr, fn, args, in)
		ex.curFrame = fr
		fr.env[in] = r
	case *ssa.ChangeInterface:
		fr.env[in] = ex.get(fr, in.X)
	case *ssa.ChangeType:
		fr.env[in] = ex.get(fr, in.X)
	case *ssa.Convert:
		fr.env[in] = ex.convert(in.X.Type(), in.Type(), ex.get(fr, in.X))
	case *ssa.MakeInterface:
		fr.env[in] = IfaceV{t: in.X.Type(), v: ex.get(fr, in.X)}
	case *ssa.Extract:
		fr.env[in] = ex.get(fr, in.Tuple).(TupleV)[in.Index]
	case *ssa.Slice:
		fr.env[in] = ex.slice(fr, in)
	case *ssa.Return:
		switch len(in.Results) {
		case 0:
		case 1:
			fr.result = ex.get(fr, in.Results[0])
		default:
			tv := make(TupleV, len(in.Results))
			for i, r := range in.Results {
				tv[i] = ex.get(fr, r)
			}
			fr.result = tv
		}
		return kReturn
	case *ssa.RunDefers:
		ex.runDefers(fr)
	case *ssa.Panic:
		v := ex.get(fr, in.X)
		panic(&goPanic{val: v, msg: ex.describe(v)})
	case *ssa.Send, *ssa.Go, *ssa.Select:
		ex.unsupported("concurrency instruction")
	case *ssa.Store:
		ex.store(ex.get(fr, in.Addr).(PtrV), ex.get(fr, in.Val))
	case *ssa.If:
		c := ex.get(fr, in.Cond).(*Term)
		succ := 1
		if ex.branch(c) {
			succ = 0
		}
		fr.prev, fr.block = fr.block, fr.block.Succs[succ]
		return kJump
	case *ssa.Jump:
		fr.prev, fr.block = fr.block, fr.block.Succs[0]
		return kJump
	case *ssa.Defer:
		fn, args := ex.prepareCall(fr, &in.Call)
		fr.defers = append(fr.defers, &deferred{fn: fn, args: args, site: in})
	case *ssa.FieldAddr:
		p := ex.get(fr, in.X).(PtrV)
		if p.obj == nil {
			ex.goPanicRuntime("nil pointer dereference")
		}
		fr.env[in] = subPtr(p, in.Field)
	case *ssa.Field:
		fr.env[in] = copyAgg(ex.get(fr, in.X).(*StructV).fields[in.Field])
	case *ssa.IndexAddr:
		fr.env[in] = ex.indexAddr(fr, in)
	case *ssa.Index:
		fr.env[in] = ex.index(fr, in)
	case *ssa.Lookup:
		fr.env[in] = ex.lookup(fr, in)
	case *ssa.MapUpdate:
		m, _ := ex.get(fr, in.Map).(*MapV)
		if m == nil {
			ex.goPanicRuntime("assignment to entry in nil map")
		}
		ex.mapSet(m, ex.get(fr, in.Key), ex.get(fr, in.Value))
	case *ssa.TypeAssert:
		fr.env[in] = ex.typeAssert(in, ex.get(fr, in.X).(IfaceV))
	case *ssa.MakeClosure:
		free := make([]Value, len(in.Bindings))
		for i, b := range in.Bindings {
			free[i] = ex.get(fr, b)
		}
		fr.env[in] = &FuncV{fn: in.Fn.(*ssa.Function), free: free}
	case *ssa.Phi:
		for i, pred := range in.Block().Preds {
			if fr.prev == pred {
				fr.env[in] = ex.get(fr, in.Edges[i])
				break
			}
		}
	case *ssa.Alloc:
		et := in.Type().(*types.Pointer).Elem()
		o := ex.newObj(ex.zero(et), et, in.Comment)
		fr.env[in] = PtrV{obj: o}
	case *ssa.MakeSlice:
		n := int(ex.concretize(ex.toInt(ex.get(fr, in.Len)), "make len"))
		c := int(ex.concretize(ex.toInt(ex.get(fr, in.Cap)), "make cap"))
		if n < 0 || c < n || c > 1<<20 {
			ex.goPanicRuntime("makeslice: len out of range")
		}
		et := in.Type().Underlying().(*types.Slice).Elem()
		fr.env[in] = ex.makeSlice(et, n, c)
	case *ssa.MakeMap:
		ex.mapCount++
		fr.env[in] = &MapV{id: ex.mapCount, typ: in.Type().Underlying().(*types.Map)}
	case *ssa.Range:
		fr.env[in] = ex.rangeIter(ex.get(fr, in.X))
	case *ssa.Next:
		fr.env[in] = ex.next(in, ex.get(fr, in.Iter).(*RangeIter))
	default:
		ex.unsupported(fmt.Sprintf("instruction %T", instr))
	}
	return kNext
}

func (ex *Exec) toInt(v Value) *Term {
	t := v.(*Term)
	if t.w != 64 {
		return ex.tf.Resize(t, 64, true)
	}
	return t
}

func (ex *Exec) makeSlice(et types.Type, n, c int) SliceV {
	a := &ArrayV{elems: make([]Value, c)}
	for i := range a.elems {
		a.elems[i] = ex.zero(et)
	}
	o := ex.newObj(a, types.NewArray(et, int64(c)), "makeslice")
	return SliceV{arr: o, off: 0, len: n, cap: c}
}

func (ex *Exec) prepareCall(fr *Frame, c *ssa.CallCommon) (Value, []Value) {
	var args []Value
	var fn Value
	if c.Method == nil {
		fn = ex.get(fr, c.Value)
	} else {
		recv := ex.get(fr, c.Value).(IfaceV)
		if recv.t == nil {
			ex.goPanicRuntime("method call on nil interface value")
		}
		if rt, ok := recv.v.(*ReflT); ok {
			name := c.Method.Name()
			for _, a := range c.Args {
				args = append(args, ex.get(fr, a))
			}
			return &FuncV{native: func(ex *Exec, fr *Frame, _ []Value) Value { return ex.reflTypeMethod(rt, name) }}, args
		}
		m := ex.lookupMethod(recv.t, c.Method)
		if m == nil {
			ex.unsupported(fmt.Sprintf("method %s not found on %s", c.Method.Name(), recv.t))
		}
		fn = &FuncV{fn: m}
		args = append(args, recv.v)
	}
	for _, a := range c.Args {
		args = append(args, ex.get(fr, a))
	}
	return fn, args
}

func (ex *Exec) lookupMethod(t types.Type, meth *types.Func) *ssa.Function {
	ms := ex.prog.MethodSets.MethodSet(t)
	sel := ms.Lookup(meth.Pkg(), meth.Name())
	if sel == nil {
		return nil
	}
	return ex.prog.MethodValue(sel)
}

func (ex *Exec) describe(v Value) string {
	switch x := v.(type) {
	case IfaceV:
		if x.t == nil {
			return "nil"
		}
		if s, ok := x.v.(*StrV); ok {
			return s.String()
		}
		if x.t.String() == "*errors.errorString" || strings.Contains(x.t.String(), "rror") {
			return "error of type " + x.t.String()
		}
		return "value of type " + x.t.String()
	case *StrV:
		return x.String()
	}
	return fmt.Sprintf("%T", v)
}

func (ex *Exec) unop(fr *Frame, in *ssa.UnOp) Value {
	x := ex.get(fr, in.X)
	switch in.Op {
	case token.MUL:
		return ex.load(x.(PtrV))
	case token.NOT:
		return ex.tf.Not(x.(*Term))
	case token.SUB:
		if f, ok := x.(FloatV); ok {
			return -f
		}
		return ex.tf.BVNeg(x.(*Term))
	case token.XOR:
		return ex.tf.BVNot(x.(*Term))
	case token.ARROW:
		ex.unsupported("channel receive")
	}
	ex.unsupported("unop " + in.Op.String())
	return nil
}

func isSigned(t types.Type) bool {
	if b, ok := t.Underlying().(*types.Basic); ok {
		_, s, ok2 := intWidth(b)
		return ok2 && s
	}
	return false
}

func (ex *Exec) binop(op token.Token, xt types.Type, x, y Value) Value {
	tf := ex.tf
	switch op {
	case token.EQL:
		return ex.equal(x, y)
	case token.NEQ:
		return tf.Not(ex.equal(x, y))
	}
	switch a := x.(type) {
	case *Term:
		b := y.(*Term)
		if a.w == 0 {
			switch op {
			case token.AND, token.LAND:
				return tf.And(a, b)
			case token.OR, token.LOR:
				return tf.Or(a, b)
			}
			ex.unsupported("bool binop " + op.String())
		}
		signed := isSigned(xt)
		switch op {
		case token.ADD:
			return tf.BV("bvadd", a, b)
		case token.SUB:
			return tf.BV("bvsub", a, b)
		case token.MUL:
			return tf.BV("bvmul", a, b)
		case token.QUO, token.REM:
			if b.IsConst() && b.val == 0 {
				ex.goPanicRuntime("integer divide by zero")
			}
			if !b.IsConst() {
				if ex.branch(tf.Eq(b, tf.Const(b.w, 0))) {
					ex.goPanicRuntime("integer divide by zero")
				}
			}
			name := map[token.Token][2]string{token.QUO: {"bvudiv", "bvsdiv"}, token.REM: {"bvurem", "bvsrem"}}[op]
			if signed {
				return tf.BV(name[1], a, b)
			}
			return tf.BV(name[0], a, b)
		case token.AND:
			return tf.BV("bvand", a, b)
		case token.OR:
			return tf.BV("bvor", a, b)
		case token.XOR:
			return tf.BV("bvxor", a, b)
		case token.AND_NOT:
			return tf.BV("bvand", a, tf.BVNot(b))
		case token.SHL, token.SHR:
			// shift count may have another width; Go: count is unsigned or non-negative
			bb := b
			if bb.w != a.w {
				if bb.w > a.w {
					// large counts saturate
					big := tf.Cmp("bvuge", bb, tf.Const(bb.w, uint64(a.w)))
					sh := tf.Resize(bb, a.w, false)
					sh = tf.Ite(big, tf.Const(a.w, uint64(a.w)), sh)
					bb = sh
				} else {
					bb = tf.Resize(bb, a.w, false)
				}
			}
			if op == token.SHL {
				return tf.BV("bvshl", a, bb)
			}
			if signed {
				return tf.BV("bvashr", a, bb)
			}
			return tf.BV("bvlshr", a, bb)
		case token.LSS, token.LEQ, token.GTR, token.GEQ:
			n := map[token.Token]string{token.LSS: "lt", token.LEQ: "le", token.GTR: "gt", token.GEQ: "ge"}[op]
			if signed {
				return tf.Cmp("bvs"+n, a, b)
			}
			return tf.Cmp("bvu"+n, a, b)
		}
	case *StrV:
		b := y.(*StrV)
		switch op {
		case token.ADD:
			return ex.strConcat(a, b)
		case token.LSS, token.LEQ, token.GTR, token.GEQ:
			return ex.strCmp(op, a, b)
		}
	case FloatV:
		b := y.(FloatV)
		switch op {
		case token.ADD:
			return a + b
		case token.SUB:
			return a - b
		case token.MUL:
			return a * b
		case token.QUO:
			return a / b
		case token.LSS:
			return tf.Bool(a < b)
		case token.LEQ:
			return tf.Bool(a <= b)
		case token.GTR:
			return tf.Bool(a > b)
		case token.GEQ:
			return tf.Bool(a >= b)
		}
	}
	ex.unsupported(fmt.Sprintf("binop %s on %T", op, x))
	return nil
}

// strCmp: lexicographic comparison for byte-only strings.
func (ex *Exec) strCmp(op token.Token, a, b *StrV) *Term {
	tf := ex.tf
	if a.isC && b.isC {
		switch op {
		case token.LSS:
			return tf.Bool(a.conc < b.conc)
		case token.LEQ:
			return tf.Bool(a.conc <= b.conc)
		case token.GTR:
			return tf.Bool(a.conc > b.conc)
		case token.GEQ:
			return tf.Bool(a.conc >= b.conc)
		}
	}
	switch op {
	case token.GTR:
		return ex.strCmp(token.LSS, b, a)
	case token.GEQ:
		return ex.strCmp(token.LEQ, b, a)
	}
	sa, sb := ex.strSegs(a), ex.strSegs(b)
	for _, s := range sa {
		if s.op != nil {
			ex.unsupported("ordering of opaque strings")
		}
	}
	for _, s := range sb {
		if s.op != nil {
			ex.unsupported("ordering of opaque strings")
		}
	}
	// less(i): comparison of suffixes from i
	var rec func(i int) *Term
	rec = func(i int) *Term {
		if i >= len(sa) {
			if op == token.LSS {
				return tf.Bool(i < len(sb))
			}
			return tf.Bool(true)
		}
		if i >= len(sb) {
			return tf.Bool(false)
		}
		lt := tf.Cmp("bvult", sa[i].b, sb[i].b)
		eq := tf.Eq(sa[i].b, sb[i].b)
		return tf.Or(lt, tf.And(eq, rec(i+1)))
	}
	return rec(0)
}

func (ex *Exec) convert(from, to types.Type, v Value) Value {
	tf := ex.tf
	fu, tu := from.Underlying(), to.Underlying()
	switch t := tu.(type) {
	case *types.Basic:
		if t.Info()&types.IsInteger != 0 {
			w, _, _ := intWidth(t)
			switch x := v.(type) {
			case *Term:
				return tf.Resize(x, w, isSigned(from))
			case FloatV:
				return tf.Const(w, uint64(int64(x)))
			}
		}
		if t.Info()&types.IsString != 0 {
			switch x := v.(type) {
			case *StrV:
				return x
			case *Term: // rune/byte -> string
				if x.IsConst() {
					return ex.cstr(string(rune(x.SVal())))
				}
				// assume ASCII
				ex.assumeInternal(tf.Cmp("bvult", tf.Resize(x, 64, false), tf.Const(64, 128)), "ascii rune->string")
				return ex.mkStr([]seg{{b: tf.Resize(x, 8, false)}})
			case SliceV: // []byte or []rune -> string
				el := fu.(*types.Slice).Elem().Underlying().(*types.Basic)
				if el.Kind() != types.Uint8 {
					allC := true
					rs := make([]rune, x.len)
					for i := 0; i < x.len; i++ {
						e := x.arr.v.(*ArrayV).elems[x.off+i].(*Term)
						if !e.IsConst() {
							allC = false
							break
						}
						rs[i] = rune(e.SVal())
					}
					if allC {
						return ex.cstr(string(rs))
					}
				}
				segs := make([]seg, 0, x.len)
				for i := 0; i < x.len; i++ {
					e := x.arr.v.(*ArrayV).elems[x.off+i].(*Term)
					if el.Kind() != types.Uint8 {
						ex.assumeInternal(tf.Cmp("bvult", tf.Resize(e, 64, false), tf.Const(64, 128)), "ascii runes->string")
						e = tf.Resize(e, 8, false)
					}
					segs = append(segs, seg{b: e})
				}
				return ex.mkStr(segs)
			}
		}
		if t.Info()&types.IsFloat != 0 {
			switch x := v.(type) {
			case FloatV:
				return x
			case *Term:
				if x.IsConst() {
					return FloatV(float64(x.SVal()))
				}
			}
		}
		if t.Kind() == types.UnsafePointer {
			return v
		}
	case *types.Slice:
		if s, ok := v.(*StrV); ok && s.isC {
			el := t.Elem().Underlying().(*types.Basic)
			if el.Kind() != types.Uint8 {
				rs := []rune(s.conc)
				sl := ex.makeSlice(t.Elem(), len(rs), len(rs))
				for i, r := range rs {
					sl.arr.v.(*ArrayV).elems[i] = tf.Const(32, uint64(r))
				}
				return sl
			}
		}
		if s, ok := v.(*StrV); ok {
			el := t.Elem().Underlying().(*types.Basic)
			segs := ex.strSegs(s)
			if el.Kind() != types.Uint8 {
				for _, sg := range segs {
					if sg.op != nil {
						// []rune of a string with an opaque chunk: only its length (the rune count) is supported
						return &RuneSeq{s: s}
					}
				}
			}
			sl := ex.makeSlice(t.Elem(), len(segs), len(segs))
			for i, sg := range segs {
				if sg.op != nil {
					ex.unsupported("[]byte of opaque string")
				}
				e := sg.b
				if el.Kind() != types.Uint8 {
					ex.assumeInternal(tf.Cmp("bvult", e, tf.Const(8, 128)), "ascii string->[]rune")
					e = tf.Resize(e, 32, false)
				}
				sl.arr.v.(*ArrayV).elems[i] = e
			}
			return sl
		}
	case *types.Pointer:
		return v
	}
	ex.unsupported(fmt.Sprintf("convert %s -> %s", from, to))
	return nil
}

// assumeInternal adds an engine-made assumption (recorded in stats) to the path.
func (ex *Exec) assumeInternal(c *Term, why string) {
	ex.stats.noteAssumption(why)
	if c.IsTrue() {
		return
	}
	if c.IsFalse() {
		// concrete data violates an assumption of the encoding: the path cannot be decided (never dropped silently)
		ex.unsupported("concrete data outside the encoding's assumption: " + why)
	}
	if !ex.feasibleNoFork(c) {
		panic(pathEnd{"infeasible", "internal assumption " + why})
	}
	ex.addPC(c)
}

func (ex *Exec) feasibleNoFork(c *Term) bool {
	if ex.tracePos < len(ex.forced) {
		return true // replaying: was feasible before
	}
	return ex.feasible(c)
}

func (ex *Exec) slice(fr *Frame, in *ssa.Slice) Value {
	x := ex.get(fr, in.X)
	geti := func(v ssa.Value, def int) int {
		if v == nil {
			return def
		}
		return int(ex.concretize(ex.toInt(ex.get(fr, v)), "slice index"))
	}
	switch s := x.(type) {
	case *StrV:
		segs := ex.strSegs(s)
		lo := geti(in.Low, 0)
		// high: default len; only computable if no opaque before it
		if in.High == nil {
			if lo < 0 || lo > len(segs) {
				ex.goPanicRuntime("slice bounds out of range")
			}
			for _, sg := range segs[:lo] {
				if sg.op != nil {
					ex.unsupported("string slice across opaque chunk")
				}
			}
			return ex.mkStr(append([]seg{}, segs[lo:]...))
		}
		hi := geti(in.High, 0)
		if lo < 0 || hi < lo || hi > len(segs) {
			// may be a true out-of-range only if no opaque
			for _, sg := range segs {
				if sg.op != nil {
					ex.unsupported("string slice across opaque chunk")
				}
			}
			ex.goPanicRuntime("slice bounds out of range")
		}
		for _, sg := range segs[:hi] {
			if sg.op != nil {
				ex.unsupported("string slice across opaque chunk")
			}
		}
		return ex.mkStr(append([]seg{}, segs[lo:hi]...))
	case SliceV:
		lo := geti(in.Low, 0)
		hi := geti(in.High, s.len)
		mx := geti(in.Max, s.cap)
		if lo < 0 || hi < lo || mx < hi || mx > s.cap {
			ex.goPanicRuntime("slice bounds out of range")
		}
		if s.arr == nil {
			return SliceV{}
		}
		return SliceV{arr: s.arr, off: s.off + lo, len: hi - lo, cap: mx - lo}
	case PtrV: // *array
		if s.obj == nil {
			ex.goPanicRuntime("nil pointer dereference")
		}
		if len(s.path) != 0 {
			ex.unsupported("slice of array nested in object")
		}
		arr := s.obj.v.(*ArrayV)
		n := len(arr.elems)
		lo := geti(in.Low, 0)
		hi := geti(in.High, n)
		mx := geti(in.Max, n)
		if lo < 0 || hi < lo || mx < hi || mx > n {
			ex.goPanicRuntime("slice bounds out of range")
		}
		return SliceV{arr: s.obj, off: lo, len: hi - lo, cap: mx - lo}
	}
	ex.unsupported(fmt.Sprintf("slice of %T", x))
	return nil
}

func (ex *Exec) concIndex(t *Term, n int, what string) int {
	if t.IsConst() {
		i := t.SVal()
		if i < 0 || i >= int64(n) {
			ex.goPanicRuntime(fmt.Sprintf("index out of range [%d] with length %d", i, n))
		}
		return int(i)
	}
	t = ex.toInt(t)
	inb := ex.tf.And(ex.tf.Cmp("bvsge", t, ex.tf.Const(64, 0)), ex.tf.Cmp("bvslt", t, ex.tf.Const(64, uint64(n))))
	if !ex.branch(inb) {
		ex.goPanicRuntime("index out of range (symbolic index)")
	}
	return int(ex.concretize(t, what))
}

func (ex *Exec) indexAddr(fr *Frame, in *ssa.IndexAddr) Value {
	x := ex.get(fr, in.X)
	idx := ex.toInt(ex.get(fr, in.Index))
	switch s := x.(type) {
	case SliceV:
		i := ex.concIndex(idx, s.len, "slice index")
		return PtrV{obj: s.arr, path: []int{s.off + i}}
	case PtrV:
		if s.obj == nil {
			ex.goPanicRuntime("nil pointer dereference")
		}
		n := int(in.X.Type().Underlying().(*types.Pointer).Elem().Underlying().(*types.Array).Len())
		i := ex.concIndex(idx, n, "array index")
		return subPtr(s, i)
	}
	ex.unsupported(fmt.Sprintf("indexaddr of %T", x))
	return nil
}

func (ex *Exec) index(fr *Frame, in *ssa.Index) Value {
	x := ex.get(fr, in.X)
	idx := ex.toInt(ex.get(fr, in.Index))
	switch s := x.(type) {
	case *ArrayV:
		i := ex.concIndex(idx, len(s.elems), "array index")
		return copyAgg(s.elems[i])
	case *StrV:
		return ex.strIndex(s, idx)
	}
	ex.unsupported(fmt.Sprintf("index of %T", x))
	return nil
}

func (ex *Exec) strIndex(s *StrV, idx *Term) Value {
	segs := ex.strSegs(s)
	if !idx.IsConst() {
		for _, sg := range segs {
			if sg.op != nil {
				ex.unsupported("symbolic index into opaque string")
			}
		}
		i := ex.concIndex(idx, len(segs), "string index")
		return segs[i].b
	}
	i := int(idx.SVal())
	if i < 0 {
		ex.goPanicRuntime("index out of range")
	}
	for k := 0; k <= i && k < len(segs); k++ {
		if segs[k].op != nil {
			ex.unsupported("index into opaque string chunk")
		}
	}
	if i >= len(segs) {
		ex.goPanicRuntime("index out of range")
	}
	return segs[i].b
}

func (ex *Exec) mapFind(m *MapV, key Value) *mapEntry {
	if m == nil {
		return nil
	}
	ex.raceMap('R', m)
	for _, e := range m.entries {
		if e.deleted {
			continue
		}
		eq := ex.equal(e.key, key)
		if ex.branch(eq) {
			return e
		}
	}
	return nil
}

func (ex *Exec) mapSet(m *MapV, key, val Value) {
	ex.raceMap('W', m)
	if ex.tracedMaps[m] {
		ex.markTraced(key)
		ex.markTraced(val)
	}
	if e := ex.mapFind(m, key); e != nil {
		e.val = copyAgg(val)
		return
	}
	m.entries = append(m.entries, &mapEntry{key: copyAgg(key), val: copyAgg(val)})
}

func (ex *Exec) lookup(fr *Frame, in *ssa.Lookup) Value {
	x := ex.get(fr, in.X)
	if s, ok := x.(*StrV); ok {
		return ex.strIndex(s, ex.toInt(ex.get(fr, in.Index)))
	}
	m, _ := x.(*MapV)
	key := ex.get(fr, in.Index)
	mt := in.X.Type().Underlying().(*types.Map)
	e := ex.mapFind(m, key)
	var v Value
	if e != nil {
		v = copyAgg(e.val)
	} else {
		v = ex.zero(mt.Elem())
	}
	if in.CommaOk {
		return TupleV{v, ex.tf.Bool(e != nil)}
	}
	return v
}

func (ex *Exec) implements(dyn types.Type, iface *types.Interface) bool {
	return types.Implements(dyn, iface)
}

func (ex *Exec) typeAssert(in *ssa.TypeAssert, x IfaceV) Value {
	var ok bool
	var v Value
	if it, isI := in.AssertedType.Underlying().(*types.Interface); isI {
		ok = x.t != nil && ex.implements(x.t, it)
		if ok {
			v = x
		} else {
			v = IfaceV{}
		}
	} else {
		ok = x.t != nil && types.Identical(x.t, in.AssertedType)
		if ok {
			v = x.v
		} else {
			v = ex.zero(in.AssertedType)
		}
	}
	if in.CommaOk {
		return TupleV{v, ex.tf.Bool(ok)}
	}
	if !ok {
		have := "nil"
		if x.t != nil {
			have = x.t.String()
		}
		panic(&goPanic{msg: fmt.Sprintf("interface conversion: interface is %s, not %s", have, in.AssertedType), runtime: true,
			val: IfaceV{t: types.Typ[types.String], v: ex.cstr("interface conversion")}})
	}
	return v
}

func (ex *Exec) rangeIter(x Value) *RangeIter {
	switch s := x.(type) {
	case *MapV:
		it := &RangeIter{m: s}
		ex.raceMap('R', s)
		if s != nil {
			it.keys = s.live()
			if ex.mapOrderFork && len(it.keys) > 1 {
				it.keys = ex.permute(it.keys)
			}
		}
		return it
	case *StrV:
		return &RangeIter{s: s, segs: ex.strSegs(s), idx: ex.tf.Const(64, 0)}
	}
	ex.unsupported(fmt.Sprintf("range over %T", x))
	return nil
}

func (ex *Exec) permute(keys []*mapEntry) []*mapEntry {
	rest := append([]*mapEntry{}, keys...)
	var out []*mapEntry
	for len(rest) > 1 {
		i := ex.choice(len(rest))
		out = append(out, rest[i])
		rest = append(rest[:i:i], rest[i+1:]...)
	}
	return append(out, rest...)
}

func (ex *Exec) next(in *ssa.Next, it *RangeIter) Value {
	tf := ex.tf
	if in.IsString {
		if it.pos >= len(it.segs) {
			return TupleV{tf.Bool(false), tf.Const(64, 0), tf.Const(32, 0)}
		}
		sg := it.segs[it.pos]
		if sg.op != nil {
			ex.unsupported("range over opaque string chunk")
		}
		if it.s.isC && it.idx.IsConst() {
			// concrete string: exact UTF-8 decoding
			off := int(it.idx.val)
			r, size := utf8.DecodeRuneInString(it.s.conc[off:])
			idx := it.idx
			it.pos += size
			it.idx = tf.Const(64, uint64(off+size))
			return TupleV{tf.Bool(true), idx, tf.Const(32, uint64(r))}
		}
		ex.assumeInternal(tf.Cmp("bvult", sg.b, tf.Const(8, 128)), "ascii bytes in ranged string")
		idx := it.idx
		it.pos++
		it.idx = tf.BV("bvadd", it.idx, tf.Const(64, 1))
		return TupleV{tf.Bool(true), idx, tf.Resize(sg.b, 32, false)}
	}
	mt := in.Iter.(*ssa.Range).X.Type().Underlying().(*types.Map)
	for it.pos < len(it.keys) {
		e := it.keys[it.pos]
		it.pos++
		if e.deleted {
			continue
		}
		return TupleV{tf.Bool(true), copyAgg(e.key), copyAgg(e.val)}
	}
	return TupleV{tf.Bool(false), ex.zero(mt.Key()), ex.zero(mt.Elem())}
}

func (ex *Exec) callBuiltin(fr *Frame, b *ssa.Builtin, args []Value, site ssa.Instruction) Value {
	tf := ex.tf
	switch b.Name() {
	case "len":
		switch x := args[0].(type) {
		case *RuneSeq:
			return ex.runeCount(x.s)
		case *StrV:
			return ex.strLen(x)
		case SliceV:
			return tf.Const(64, uint64(x.len))
		case *MapV:
			if x == nil {
				return tf.Const(64, 0)
			}
			ex.raceMap('R', x)
			return tf.Const(64, uint64(len(x.live())))
		case *ArrayV:
			return tf.Const(64, uint64(len(x.elems)))
		case PtrV:
			return tf.Const(64, uint64(len(x.obj.v.(*ArrayV).elems)))
		}
	case "cap":
		switch x := args[0].(type) {
		case SliceV:
			return tf.Const(64, uint64(x.cap))
		case *ArrayV:
			return tf.Const(64, uint64(len(x.elems)))
		}
	case "append":
		s := args[0].(SliceV)
		var add []Value
		switch t := args[1].(type) {
		case SliceV:
			for i := 0; i < t.len; i++ {
				if ex.curThread != 0 {
					ex.raceAccess('R', PtrV{obj: t.arr, path: []int{t.off + i}})
				}
				add = append(add, t.arr.v.(*ArrayV).elems[t.off+i])
			}
		case *StrV:
			for _, sg := range ex.strSegs(t) {
				if sg.op != nil {
					ex.unsupported("append opaque string to bytes")
				}
				add = append(add, sg.b)
			}
		}
		if len(add) == 0 {
			return s
		}
		et := site.(ssa.Value).Type().Underlying().(*types.Slice).Elem()
		return ex.appendVals(s, add, et)
	case "copy":
		d := args[0].(SliceV)
		var src []Value
		switch t := args[1].(type) {
		case SliceV:
			for i := 0; i < t.len; i++ {
				src = append(src, t.arr.v.(*ArrayV).elems[t.off+i])
			}
		case *StrV:
			for _, sg := range ex.strSegs(t) {
				if sg.op != nil {
					ex.unsupported("copy from opaque string")
				}
				src = append(src, sg.b)
			}
		}
		n := len(src)
		if d.len < n {
			n = d.len
		}
		for i := 0; i < n; i++ {
			if ex.curThread != 0 {
				ex.raceAccess('W', PtrV{obj: d.arr, path: []int{d.off + i}})
			}
			d.arr.v.(*ArrayV).elems[d.off+i] = copyAgg(src[i])
		}
		return tf.Const(64, uint64(n))
	case "delete":
		m, _ := args[0].(*MapV)
		ex.raceMap('W', m)
		if e := ex.mapFind(m, args[1]); e != nil {
			e.deleted = true
		}
		return nil
	case "print", "println":
		return nil
	case "recover":
		// effective only when called directly by a deferred function of a panicking frame
		if fr != nil && fr.caller != nil && fr.caller.panicking {
			fr.caller.panicking = false
			p := fr.caller.panicVal
			fr.caller.panicVal = nil
			if iv, ok := p.val.(IfaceV); ok {
				return iv
			}
			return IfaceV{t: types.Typ[types.String], v: ex.cstr(p.msg)}
		}
		return IfaceV{}
	case "ssa:wrapnilchk":
		if p, ok := args[0].(PtrV); ok && p.obj == nil {
			ex.goPanicRuntime("value method called using nil pointer")
		}
		return args[0]
	case "min", "max":
		r := args[0].(*Term)
		signed := true
		if c, ok := site.(*ssa.Call); ok {
			signed = isSigned(c.Type())
		}
		for _, a := range args[1:] {
			t := a.(*Term)
			var lt *Term
			if signed {
				lt = tf.Cmp("bvslt", t, r)
			} else {
				lt = tf.Cmp("bvult", t, r)
			}
			if b.Name() == "max" {
				lt = tf.Not(tf.Or(lt, tf.Eq(t, r)))
				r = tf.Ite(lt, r, t)
				// r = (t > r) ? t : r  -> lt here means !(t<=r) i.e. t>r ; fixup below
				continue
			}
			r = tf.Ite(lt, t, r)
		}
		if b.Name() == "max" {
			// recompute cleanly
			r = args[0].(*Term)
			for _, a := range args[1:] {
				t := a.(*Term)
				var gt *Term
				if signed {
					gt = tf.Cmp("bvsgt", t, r)
				} else {
					gt = tf.Cmp("bvugt", t, r)
				}
				r = tf.Ite(gt, t, r)
			}
		}
		return r
	}
	ex.unsupported("builtin " + b.Name())
	return nil
}

// appendVals implements append: in place iff len+n <= cap, else a fresh array. The growth capacity
// is a forked choice when ex.capFork is set (needed, needed+1), else exactly Go's amortised rule is
// not modelled: capacity = needed rounded like the runtime for small sizes (doubling).
func (ex *Exec) appendVals(s SliceV, add []Value, et types.Type) SliceV {
	need := s.len + len(add)
	if s.arr != nil && need <= s.cap {
		arr := s.arr.v.(*ArrayV)
		for i, v := range add {
			if ex.curThread != 0 {
				ex.raceAccess('W', PtrV{obj: s.arr, path: []int{s.off + s.len + i}})
				if ex.traced[s.arr] {
					ex.markTraced(v)
				}
			}
			arr.elems[s.off+s.len+i] = copyAgg(v)
		}
		return SliceV{arr: s.arr, off: s.off, len: need, cap: s.cap}
	}
	nc := need
	if ex.capFork {
		nc = need + ex.choice(2)
	} else {
		// runtime-like growth: double for small slices
		if s.cap*2 > need {
			nc = s.cap * 2
		}
	}
	ns := ex.makeSlice(et, need, nc)
	arr := ns.arr.v.(*ArrayV)
	for i := 0; i < s.len; i++ {
		if ex.curThread != 0 {
			ex.raceAccess('R', PtrV{obj: s.arr, path: []int{s.off + i}})
		}
		arr.elems[i] = copyAgg(s.arr.v.(*ArrayV).elems[s.off+i])
	}
	for i, v := range add {
		arr.elems[s.len+i] = copyAgg(v)
	}
	return ns
}
