package main

import (
	"encoding/json"
	"fmt"
	"os"
	"path/filepath"
	"regexp"
	"sort"
	"strings"
	"time"
)

type KnownFinding struct {
	Property string `json:"property"`
	Status   string `json:"status"` // "known" | "fixed"
	Harness  string `json:"harness"` // regexp on harness name
	ID       string `json:"id"`      // regexp on obligation id ("no-panic" for panics)
	What     string `json:"what"`
	Commit   string `json:"commit,omitempty"`
}

func loadKnown(path, prop string) []KnownFinding {
	b, err := os.ReadFile(path)
	if err != nil {
		return nil
	}
	var all struct {
		Findings []KnownFinding `json:"findings"`
	}
	if json.Unmarshal(b, &all) != nil {
		return nil
	}
	var out []KnownFinding
	for _, k := range all.Findings {
		if k.Property == prop && k.Status == "known" {
			out = append(out, k)
		}
	}
	return out
}

func matchKnown(ks []KnownFinding, v *Violation) *KnownFinding {
	for i := range ks {
		hre, err1 := regexp.Compile("^(?:" + ks[i].Harness + ")$")
		ire, err2 := regexp.Compile("^(?:" + ks[i].ID + ")$")
		if err1 != nil || err2 != nil {
			continue
		}
		if hre.MatchString(v.Harness) && ire.MatchString(v.ID) {
			return &ks[i]
		}
	}
	return nil
}

func finish(o *Options, ov map[string]string, results []*HarnessStats, dirOf map[string]string, start time.Time) int {
	// 1. write replay files: violations and witnesses
	type rpInfo struct {
		file string
		v    *Violation
		w    *Replay
		h    string
	}
	byDir := map[string][]*rpInfo{}
	n := 0
	for _, st := range results {
		if st == nil {
			continue
		}
		seen := map[string]bool{}
		for _, v := range st.Violations {
			key := v.ID + "|" + v.Kind
			if seen[key] {
				continue // one replay per (harness, obligation id)
			}
			seen[key] = true
			n++
			byDir[dirOf[st.Name]] = append(byDir[dirOf[st.Name]], &rpInfo{file: fmt.Sprintf("v%04d_%s.json", n, st.Name), v: v, h: st.Name})
		}
		for _, w := range st.Witnesses {
			n++
			byDir[dirOf[st.Name]] = append(byDir[dirOf[st.Name]], &rpInfo{file: fmt.Sprintf("w%04d_%s.json", n, st.Name), w: w, h: st.Name})
		}
	}
	tierN := 0
	if o.Tier == "thorough" {
		tierN = 1
	}
	nativeOK, nativeBad, confirmed := 0, 0, 0
	var unconfirmed []string
	confirmedV := map[*Violation]string{}
	for dir, list := range byDir {
		rdir := filepath.Join(o.WorkDir, "replays_"+strings.Replace(dir, "/", "_", -1))
		os.MkdirAll(rdir, 0o755)
		for _, r := range list {
			var rp *Replay
			if r.v != nil {
				rp = r.v.Replay
			} else {
				rp = r.w
			}
			if rp.Vals == nil {
				rp.Vals = map[string]int64{}
			}
			rp.Vals["$tier"] = int64(tierN)
			b, _ := json.MarshalIndent(rp, "", " ")
			os.WriteFile(filepath.Join(rdir, r.file), b, 0o644)
		}
		if o.NoNative {
			continue
		}
		var res map[string]string
		var out string
		var err error
		if o.NativeRace {
			// one process per replay under the race detector; a reported race becomes the result "race"
			res = map[string]string{}
			for _, r := range list {
				one := filepath.Join(rdir, "one_"+r.file)
				os.MkdirAll(one, 0o755)
				b, _ := os.ReadFile(filepath.Join(rdir, r.file))
				os.WriteFile(filepath.Join(one, r.file), b, 0o644)
				r1, o1, e1 := nativeRun(o, ov, dir, one, true)
				if strings.Contains(o1, "WARNING: DATA RACE") || strings.Contains(o1, "fatal error: concurrent map") {
					res[r.file] = "race"
				} else if e1 != nil {
					res[r.file] = "crash: " + tail(strings.TrimSpace(o1), 1)
				} else {
					res[r.file] = r1[r.file]
				}
			}
		} else {
			res, out, err = nativeRun(o, ov, dir, rdir, false)
		}
		if err != nil {
			fmt.Println("NATIVE RUN FAILED:", err)
			fmt.Println(tail(out, 40))
			unconfirmed = append(unconfirmed, "native run failed for package "+dir)
			continue
		}
		for _, r := range list {
			got := res[r.file]
			if r.w != nil {
				if got == "ok" {
					nativeOK++
				} else {
					nativeBad++
					unconfirmed = append(unconfirmed, fmt.Sprintf("witness %s of %s: native result %q (engine predicted ok)", r.file, r.h, got))
					keep(o, filepath.Join(rdir, r.file))
				}
				continue
			}
			want := "assert:" + r.v.ID
			ok := got == want
			if r.v.Kind == "panic" {
				ok = strings.HasPrefix(got, "panic:")
			}
			if r.v.ID == "no-data-race" {
				ok = got == "race"
			}
			if ok {
				confirmed++
				confirmedV[r.v] = keep(o, filepath.Join(rdir, r.file))
			} else {
				unconfirmed = append(unconfirmed, fmt.Sprintf("violation %s/%s: native result %q, engine expected %q", r.h, r.v.ID, got, want))
				keep(o, filepath.Join(rdir, r.file))
			}
		}
	}

	// 2. classify
	known := loadKnown(o.KnownFile, o.Property)
	knownHit := map[string]bool{}
	var newViol []*Violation
	for _, st := range results {
		if st == nil {
			continue
		}
		for _, v := range st.Violations {
			if _, ok := confirmedV[v]; !ok && !o.NoNative {
				continue
			}
			if k := matchKnown(known, v); k != nil {
				knownHit[k.What] = true
				continue
			}
			newViol = append(newViol, v)
		}
	}

	// 3. evidence
	ev := map[string]interface{}{}
	cov := map[string]interface{}{}
	var paths, steps, obl, dis, forks, solverQ, crossN, crossBad, intQ, bvQ int
	var solverS float64
	funcs := map[string]int{}
	var samples []interface{}
	var inconcl []string
	assum := map[string]bool{}
	reach := map[string]int{}
	harnessRows := []map[string]interface{}{}
	for _, st := range results {
		if st == nil {
			continue
		}
		paths += st.PathsDone + st.PanicPaths
		steps += st.Steps
		obl += st.Obligations
		dis += st.Discharged
		forks += st.Forks
		solverQ += st.SolverQ
		solverS += st.SolverTime.Seconds()
		crossN += st.CrossChecked
		crossBad += st.CrossDisagree
		intQ += st.IntQueries
		bvQ += st.BVQueries
		for f, c := range st.Funcs {
			funcs[f] += c
		}
		for _, s := range st.Samples {
			if len(samples) < 8 {
				samples = append(samples, map[string]string{"harness": st.Name, "obligation_id": s.ID, "term": s.Term})
			}
		}
		for _, s := range st.Inconclusive {
			inconcl = append(inconcl, st.Name+": "+s)
		}
		for a := range st.Assumptions {
			assum[a] = true
		}
		for l, c := range st.Reached {
			reach[st.Name+"/"+l] += c
		}
		harnessRows = append(harnessRows, map[string]interface{}{"harness": st.Name, "paths": st.PathsDone, "panic_paths": st.PanicPaths,
			"infeasible_paths": st.Infeasible, "ssa_instructions": st.Steps, "obligations": st.Obligations, "discharged": st.Discharged,
			"violations": len(st.Violations), "solver_queries": st.SolverQ, "solver_s": round3(st.SolverTime.Seconds()), "wall_s": round3(st.Wall.Seconds()),
			"cross": st.Cross})
		if len(samples) < 8 && len(st.Witnesses) > 0 {
			samples = append(samples, map[string]interface{}{"harness": st.Name, "witness_inputs": st.Witnesses[0].Vals, "choices": st.Witnesses[0].Choices})
		}
	}
	for _, u := range unconfirmed {
		inconcl = append(inconcl, "UNCONFIRMED: "+u)
	}
	for _, c := range contractFailures {
		inconcl = append(inconcl, "parser contract P not confirmed by the real go/parser: "+c)
	}
	if len(samples) == 0 {
		samples = append(samples, "no symbolic obligation was generated")
	}
	var fl []string
	for f, c := range funcs {
		fl = append(fl, fmt.Sprintf("%s:%d", f, c))
	}
	sort.Strings(fl)
	var al []string
	for a := range assum {
		al = append(al, a)
	}
	sort.Strings(al)
	al = append(al, "strings are byte sequences plus opaque chunks (symbolic length < 65536, no newline/quote/backslash/non-printable byte)",
		"heap shape (nil-ness, list lengths, dynamic types) is chosen by the harness by forking; scalars are 64-bit bit-vectors",
		"intrinsics stand in for strings/strconv/fmt/sort/sync/errors functions as listed in DESIGN.md")
	cov["states"] = max1(paths)
	cov["transitions"] = max1(steps)
	cov["traces_validated_against_impl"] = nativeOK + confirmed
	cov["samples"] = samples
	cov["obligations"] = obl
	cov["discharged"] = dis
	cov["forks"] = forks
	cov["solver_queries"] = solverQ
	cov["solver_s"] = round3(solverS)
	cov["solver"] = o.Cfg.SolverName
	cov["queries_integer_encoding"] = intQ
	cov["queries_bitvector_encoding"] = bvQ
	cov["cross_checked_obligations"] = crossN
	cov["cross_check_back_ends"] = o.Cfg.Cross
	cov["cross_check_disagreements"] = crossBad
	cov["functions_encoded"] = fl
	cov["harnesses"] = harnessRows
	cov["inconclusive"] = inconcl
	cov["reach_witnesses"] = reach
	cov["native_witness_replays_ok"] = nativeOK
	cov["native_witness_replays_mismatch"] = nativeBad
	cov["violations_confirmed_natively"] = confirmed
	cov["exhaustive"] = false
	cov["bounds"] = fmt.Sprintf("per-path SSA step budget %d, call depth %d, path budget %d per harness; input sizes as stated in each harness (see DESIGN.md section 5)", o.Cfg.MaxSteps, o.Cfg.MaxDepth, o.Cfg.MaxPaths)
	cov["repo_tree"] = treeHash(o.Repo)
	ev["property_id"] = o.Property
	ev["tier"] = o.Tier
	ev["seed"] = seedEnv()
	ev["level"] = "model_checking"
	ev["coverage"] = cov
	ev["assumptions"] = al
	ev["wall_s"] = round3(time.Since(start).Seconds())
	ev["violations"] = len(newViol)
	var khl []string
	for k := range knownHit {
		khl = append(khl, k)
	}
	sort.Strings(khl)
	ev["known_findings_reproduced"] = khl
	if o.Evidence != "" {
		os.MkdirAll(filepath.Dir(o.Evidence), 0o755)
		b, _ := json.MarshalIndent(ev, "", " ")
		os.WriteFile(o.Evidence, b, 0o644)
	}

	// 4. report
	for _, k := range khl {
		fmt.Printf("KNOWN-FINDING: property=%s %s\n", o.Property, k)
	}
	for _, u := range inconcl {
		fmt.Println("INCONCLUSIVE:", u)
	}
	fmt.Printf("[%s] harnesses=%d paths=%d ssa-instrs=%d obligations=%d discharged=%d solver-queries=%d solver=%.1fs native-ok=%d confirmed=%d wall=%.1fs\n",
		o.Property, len(results), paths, steps, obl, dis, solverQ, solverS, nativeOK, confirmed, time.Since(start).Seconds())
	if len(newViol) > 0 {
		seen := map[string]bool{}
		for _, v := range newViol {
			p := confirmedV[v]
			if p == "" {
				p = "(native replay disabled)"
			}
			key := v.Harness + "|" + v.ID
			if seen[key] {
				continue
			}
			seen[key] = true
			fmt.Printf("  violation: harness=%s obligation=%s %s\n", v.Harness, v.ID, v.Msg)
			fmt.Printf("VIOLATION property=%s replay=%s\n", o.Property, p)
		}
		return 1
	}
	return 0
}

func keep(o *Options, f string) string {
	dir := filepath.Join(o.Root, "evidence", "replays", o.Property)
	os.MkdirAll(dir, 0o755)
	dst := filepath.Join(dir, filepath.Base(f))
	b, err := os.ReadFile(f)
	if err == nil {
		os.WriteFile(dst, b, 0o644)
	}
	return dst
}

func tail(s string, n int) string {
	ls := strings.Split(s, "\n")
	if len(ls) > n {
		ls = ls[len(ls)-n:]
	}
	return strings.Join(ls, "\n")
}

func round3(f float64) float64 { return float64(int(f*1000)) / 1000 }
func max1(n int) int {
	if n < 1 {
		return 1
	}
	return n
}
func seedEnv() int {
	var s int
	fmt.Sscanf(os.Getenv("VERIF_SEED"), "%d", &s)
	return s
}
