package main

import (
	"fmt"
	"go/types"
)

// A small in-memory file system standing in for the os layer (C20): whole-file writes
// (os.WriteFile / ioutil.WriteFile: create or truncate, then write) and handle-based writes
// (os.OpenFile with O_CREATE/O_TRUNC/O_APPEND semantics, File.Write/WriteString/Close). File names and
// contents must be concrete or byte-wise symbolic strings; permissions are ignored. Every operation
// is logged so that harnesses can assert "written nowhere else".
type fsFile struct {
	content *StrV
}

type fsHandle struct {
	name   string
	off    int
	append bool
}

const (
	oWRONLY = 0x1
	oRDWR   = 0x2
	oAPPEND = 0x400
	oCREATE = 0x40
	oTRUNC  = 0x200
)

func (ex *Exec) fsWriteAt(name string, off int, data *StrV) int {
	f := ex.fs[name]
	old := ex.byteOnly(f.content, "file content")
	nw := ex.byteOnly(data, "written data")
	out := append([]seg{}, old...)
	for len(out) < off {
		out = append(out, seg{b: ex.tf.Const(8, 0)})
	}
	for i, s := range nw {
		if off+i < len(out) {
			out[off+i] = s
		} else {
			out = append(out, s)
		}
	}
	f.content = ex.mkStr(out)
	return len(nw)
}

func (ex *Exec) bytesToStr(v Value) *StrV {
	return ex.convert(types.NewSlice(types.Typ[types.Uint8]), types.Typ[types.String], v).(*StrV)
}

func init() {
	extraAPI = append(extraAPI, func(ex *Exec) {
		tf := ex.tf
		nilErr := IfaceV{}
		writeFile := func(ex *Exec, fr *Frame, a []Value) Value {
			name := ex.concStr(a[0], "WriteFile name")
			ex.fs[name] = &fsFile{content: ex.bytesToStr(a[1])}
			ex.fsLog = append(ex.fsLog, "write:"+name)
			return nilErr
		}
		ex.intr["os.WriteFile"] = writeFile
		ex.intr["io/ioutil.WriteFile"] = writeFile
		ex.intr["os.OpenFile"] = func(ex *Exec, fr *Frame, a []Value) Value {
			name := ex.concStr(a[0], "OpenFile name")
			flag := int(ex.concInt(a[1], "OpenFile flag"))
			f, ok := ex.fs[name]
			if !ok {
				if flag&oCREATE == 0 {
					return TupleV{PtrV{}, errorIface(ex, ex.cstr("open "+name+": no such file or directory"))}
				}
				f = &fsFile{content: ex.cstr("")}
				ex.fs[name] = f
			}
			if flag&oTRUNC != 0 {
				f.content = ex.cstr("")
			}
			h := &fsHandle{name: name, append: flag&oAPPEND != 0}
			ex.fsLog = append(ex.fsLog, "open:"+name)
			o := ex.newObj(&StructV{fields: []Value{}}, nil, "os.File")
			ex.fsHandles[o] = h
			return TupleV{PtrV{obj: o}, nilErr}
		}
		ex.intr["os.Create"] = func(ex *Exec, fr *Frame, a []Value) Value {
			return ex.intr["os.OpenFile"](ex, fr, []Value{a[0], tf.Const(64, oRDWR|oCREATE|oTRUNC), tf.Const(32, 0o666)})
		}
		write := func(ex *Exec, fr *Frame, a []Value, data *StrV) Value {
			h := ex.fsHandles[a[0].(PtrV).obj]
			if h == nil {
				ex.unsupported("write on unknown *os.File")
			}
			if h.append {
				h.off = len(ex.byteOnly(ex.fs[h.name].content, "file content"))
			}
			n := ex.fsWriteAt(h.name, h.off, data)
			h.off += n
			ex.fsLog = append(ex.fsLog, "write:"+h.name)
			return TupleV{tf.Const(64, uint64(n)), nilErr}
		}
		ex.intr["(*os.File).Write"] = func(ex *Exec, fr *Frame, a []Value) Value { return write(ex, fr, a, ex.bytesToStr(a[1])) }
		ex.intr["(*os.File).WriteString"] = func(ex *Exec, fr *Frame, a []Value) Value { return write(ex, fr, a, a[1].(*StrV)) }
		ex.intr["(*os.File).Close"] = func(ex *Exec, fr *Frame, a []Value) Value { return nilErr }
		ex.intr["(*os.File).Sync"] = func(ex *Exec, fr *Frame, a []Value) Value { return nilErr }
		// os.Stat / os.Lstat: an *os.fileStat holding name and size (the real methods read the fields)
		stat := func(ex *Exec, fr *Frame, a []Value) Value {
			name := ex.concStr(a[0], "Stat name")
			f, ok := ex.fs[name]
			if !ok {
				return TupleV{IfaceV{}, errorIface(ex, ex.cstr("stat "+name+": no such file or directory"))}
			}
			ft := ex.namedType("os", "fileStat")
			if ft == nil {
				ex.unsupported("os.fileStat not in the program")
			}
			sv := ex.zero(ft).(*StructV)
			st := ft.Underlying().(*types.Struct)
			base := name
			for i := len(name) - 1; i >= 0; i-- {
				if name[i] == '/' {
					base = name[i+1:]
					break
				}
			}
			for i := 0; i < st.NumFields(); i++ {
				switch st.Field(i).Name() {
				case "name":
					sv.fields[i] = ex.cstr(base)
				case "size":
					sv.fields[i] = ex.strLen(f.content)
				}
			}
			o := ex.newObj(sv, ft, "os.fileStat")
			return TupleV{IfaceV{t: types.NewPointer(ft), v: PtrV{obj: o}}, nilErr}
		}
		ex.intr["os.Stat"] = stat
		ex.intr["os.Lstat"] = stat
		// harness side
		ex.intr["vf:vfFSRoot"] = func(ex *Exec, fr *Frame, a []Value) Value { return ex.cstr("/vfs") }
		ex.intr["vf:vfFSPut"] = func(ex *Exec, fr *Frame, a []Value) Value {
			ex.fs[ex.concStr(a[0], "vfFSPut name")] = &fsFile{content: a[1].(*StrV)}
			return nil
		}
		ex.intr["vf:vfFSGet"] = func(ex *Exec, fr *Frame, a []Value) Value {
			f, ok := ex.fs[ex.concStr(a[0], "vfFSGet name")]
			if !ok {
				return TupleV{ex.cstr(""), tf.Bool(false)}
			}
			return TupleV{f.content, tf.Bool(true)}
		}
		ex.intr["vf:vfFSCount"] = func(ex *Exec, fr *Frame, a []Value) Value { return tf.Const(64, uint64(len(ex.fs))) }
		_ = fmt.Sprint
	})
}
