package main

import (
	"fmt"
	"go/ast"
	"go/parser"
	"go/token"
	"os"
	"path/filepath"
	"regexp"
	"sort"
	"strings"
)

// The generic-instance generator: reads /repo/dst.go (the current working tree) with go/parser and
// emits, for the harness package, constructors of a "generic instance" of every dst node type, a
// table describing children / lists / decoration points / optional fields, and one Verif<Base>_<T>
// entry point per node type for every harness base function `vfPerType_<Base>(typ string)`.

type genField struct {
	Name     string
	Kind     string // "ptr","iface","list","tok","bool","string","int","chandir","skip"
	Elem     string // node type name for ptr / list-of-ptr; interface name for iface / list-of-iface
	Optional bool
}
type genType struct {
	Name   string
	Fields []genField
	Points []string // decoration points in declaration order (Start first, End last as declared)
	Iface  string   // Expr | Stmt | Decl | Spec | "" (Field, FieldList, File, Package)
}

var tokChoices = map[string][]string{
	"AssignStmt.Tok": {"ASSIGN", "DEFINE", "ADD_ASSIGN"},
	"BinaryExpr.Op":  {"ADD", "LAND", "SHL"},
	"UnaryExpr.Op":   {"SUB", "AND", "ARROW"},
	"IncDecStmt.Tok": {"INC", "DEC"},
	"BranchStmt.Tok": {"BREAK", "CONTINUE", "GOTO", "FALLTHROUGH"},
	"GenDecl.Tok":    {"VAR", "CONST", "TYPE", "IMPORT"},
	"RangeStmt.Tok":  {"DEFINE", "ASSIGN", "ILLEGAL"},
	"BasicLit.Kind":  {"INT", "STRING", "CHAR"},
}

func parseDstTypes(repo string) ([]*genType, error) {
	fset := token.NewFileSet()
	f, err := parser.ParseFile(fset, filepath.Join(repo, "dst.go"), nil, parser.ParseComments)
	if err != nil {
		return nil, err
	}
	fd, err := parser.ParseFile(fset, filepath.Join(repo, "decorations-types-generated.go"), nil, parser.ParseComments)
	if err != nil {
		return nil, err
	}
	decPoints := map[string][]string{}
	for _, d := range fd.Decls {
		gd, ok := d.(*ast.GenDecl)
		if !ok {
			continue
		}
		for _, s := range gd.Specs {
			ts, ok := s.(*ast.TypeSpec)
			if !ok {
				continue
			}
			st, ok := ts.Type.(*ast.StructType)
			if !ok || !strings.HasSuffix(ts.Name.Name, "Decorations") {
				continue
			}
			var pts []string
			hasNodeDecs := false
			for _, fl := range st.Fields.List {
				if len(fl.Names) == 0 {
					hasNodeDecs = true
					continue
				}
				for _, n := range fl.Names {
					pts = append(pts, n.Name)
				}
			}
			if hasNodeDecs {
				pts = append(append([]string{"Start"}, pts...), "End")
			}
			decPoints[strings.TrimSuffix(ts.Name.Name, "Decorations")] = pts
		}
	}
	structs := map[string]*ast.StructType{}
	var order []string
	for _, d := range f.Decls {
		gd, ok := d.(*ast.GenDecl)
		if !ok {
			continue
		}
		for _, s := range gd.Specs {
			ts, ok := s.(*ast.TypeSpec)
			if !ok {
				continue
			}
			if st, ok := ts.Type.(*ast.StructType); ok {
				structs[ts.Name.Name] = st
				order = append(order, ts.Name.Name)
			}
		}
	}
	// interface membership from marker methods
	ifaceOf := map[string]string{}
	for _, d := range f.Decls {
		fn, ok := d.(*ast.FuncDecl)
		if !ok || fn.Recv == nil || len(fn.Recv.List) == 0 {
			continue
		}
		st, ok := fn.Recv.List[0].Type.(*ast.StarExpr)
		if !ok {
			continue
		}
		id, ok := st.X.(*ast.Ident)
		if !ok {
			continue
		}
		switch fn.Name.Name {
		case "exprNode":
			ifaceOf[id.Name] = "Expr"
		case "stmtNode":
			ifaceOf[id.Name] = "Stmt"
		case "declNode":
			ifaceOf[id.Name] = "Decl"
		case "specNode":
			ifaceOf[id.Name] = "Spec"
		}
	}
	isNode := func(n string) bool {
		st := structs[n]
		if st == nil {
			return false
		}
		for _, fl := range st.Fields.List {
			for _, nm := range fl.Names {
				if nm.Name == "Decs" {
					return true
				}
			}
		}
		return n == "Package"
	}
	optRe := regexp.MustCompile(`nil`)
	var out []*genType
	sort.Strings(order)
	for _, name := range order {
		if !isNode(name) {
			continue
		}
		gt := &genType{Name: name, Points: decPoints[name], Iface: ifaceOf[name]}
		for _, fl := range structs[name].Fields.List {
			comment := ""
			if fl.Comment != nil {
				comment = fl.Comment.Text()
			}
			opt := optRe.MatchString(comment) && !strings.Contains(comment, "non-nil")
			for _, nm := range fl.Names {
				if nm.Name == "Decs" {
					continue
				}
				gf := genField{Name: nm.Name, Optional: opt}
				if name == "File" && (nm.Name == "Imports" || nm.Name == "Unresolved") {
					continue // derived view of the import specs inside Decls, not an independent child list
				}
				switch t := fl.Type.(type) {
				case *ast.StarExpr:
					id := t.X.(*ast.Ident)
					if isNode(id.Name) {
						gf.Kind, gf.Elem = "ptr", id.Name
					} else {
						gf.Kind = "skip" // *Object, *Scope
					}
				case *ast.Ident:
					switch t.Name {
					case "Expr", "Stmt", "Decl", "Spec", "Node":
						gf.Kind, gf.Elem = "iface", t.Name
					case "bool":
						gf.Kind = "bool"
					case "string":
						gf.Kind = "string"
					case "int":
						gf.Kind = "int"
					case "ChanDir":
						gf.Kind = "chandir"
					default:
						gf.Kind = "skip"
					}
				case *ast.SelectorExpr:
					if t.Sel.Name == "Token" {
						gf.Kind = "tok"
					} else {
						gf.Kind = "skip"
					}
				case *ast.ArrayType:
					gf.Kind = "list"
					switch e := t.Elt.(type) {
					case *ast.StarExpr:
						gf.Elem = "*" + e.X.(*ast.Ident).Name
					case *ast.Ident:
						gf.Elem = e.Name
					}
				default:
					gf.Kind = "skip"
				}
				gt.Fields = append(gt.Fields, gf)
			}
		}
		out = append(out, gt)
	}
	return out, nil
}

func tokDefault(typ, field string) []string {
	if c, ok := tokChoices[typ+"."+field]; ok {
		return c
	}
	return []string{"ILLEGAL"}
}

// generateNodes writes the generated harness support file for package pkg ("dst" or other) and returns
// the list of Verif entry points it defines.
func generateNodes(repo, pkg string, bases []string, outFile string) ([]string, error) {
	types, err := parseDstTypes(repo)
	if err != nil {
		return nil, err
	}
	q := "dst."
	imp := "\t\"go/token\"\n\n\t\"github.com/dave/dst\"\n"
	if pkg == "dst" {
		q = ""
		imp = "\t\"go/token\"\n"
	}
	var sb strings.Builder
	w := func(f string, a ...interface{}) { fmt.Fprintf(&sb, f, a...) }
	w("// Code generated by gosym from /repo/dst.go and decorations-types-generated.go; DO NOT EDIT.\n\npackage %s\n\nimport (\n%s)\n\n", pkg, imp)
	w("var _ = token.ILLEGAL\n\n")
	sb.WriteString(strings.ReplaceAll(`// vfGen holds the policy for building one generic instance.
type vfGen struct {
	prefix   string
	nilField string // "" = all children present; "*" = every optional child nil; "T.F" = that optional child nil
	listLen  int    // length of every list
	spare    int    // spare capacity of every list and decoration slice
	decPoint string // "" = no decorations; "*" = one block comment on every point; "T.P" = forked decorations on that point
	maxDecs  int
	spaces   bool // Before/After symbolic in {0,1,2}
	symFlags bool // bool fields symbolic
	symToks  bool // token fields forked over their candidates
	multiLine bool // forked decorations may also be multi-line block comments (content-bounded)
	depth    int  // children below this depth are minimal leaves
	level    int  // 0 while building the top node
	exprPath string // package path carried by every leaf expression identifier ("" = none)
	pathField string // "" = every expression leaf carries exprPath; "T.F" = only leaves of that field
	made     []*Q.Ident // identifiers created with a package path (independent of any tree walk)
	stmtLeaf int // which leaf statement stands for Stmt children: 0 ExprStmt, 1 implicit EmptyStmt, 2 explicit EmptyStmt, 3 BranchStmt
	exprLeaf int // which leaf expression stands for Expr children: 0 Ident, 1 BasicLit, 2 Ellipsis without element
	n        int
}

func (g *vfGen) nm(s string) string {
	g.n++
	return g.prefix + s + vfItoa(g.n)
}

func vfItoa(i int) string {
	if i == 0 {
		return "0"
	}
	s := ""
	for i > 0 {
		s = string(rune('0'+i%10)) + s
		i /= 10
	}
	return s
}

func (g *vfGen) present(typ, field string, optional bool) bool {
	if !optional {
		return true
	}
	if g.nilField == "*" {
		return false
	}
	return g.nilField != typ+"."+field
}

func (g *vfGen) decs(typ, point string) Q.Decorations {
	var d Q.Decorations
	switch {
	case g.decPoint == "*" || (g.decPoint == "^" && g.level == 0):
		d = make(Q.Decorations, 0, 1+g.spare)
		d = append(d, vfOpaque(g.nm("c"), "/*"+string(rune('A'+g.n%26)))+"*/")
	case g.decPoint == typ+"."+point:
		n := vfChoice(g.nm("ndecs"), g.maxDecs+1)
		d = make(Q.Decorations, 0, n+g.spare)
		for i := 0; i < n; i++ {
			kinds := 3
			if g.multiLine {
				kinds = 4
			}
			switch vfChoice(g.nm("kind"), kinds) {
			case 0:
				d = append(d, "\n")
			case 1:
				d = append(d, vfOpaque(g.nm("c"), "//"))
			case 3:
				d = append(d, "/*"+vfBytes(g.nm("ml"), 2, "a\n")+"*/")
			default:
				d = append(d, vfOpaque(g.nm("c"), "/*")+"*/")
			}
		}
	}
	return d
}

func (g *vfGen) space() Q.SpaceType {
	if !g.spaces {
		return Q.None
	}
	return Q.SpaceType(vfInt(g.nm("space"), 0, 2))
}

func (g *vfGen) flag() bool {
	if !g.symFlags {
		return true
	}
	return vfBool(g.nm("flag"))
}

func (g *vfGen) tok(cands ...token.Token) token.Token {
	if !g.symToks || len(cands) == 1 {
		return cands[0]
	}
	return cands[vfChoice(g.nm("tok"), len(cands))]
}

func (g *vfGen) ident() *Q.Ident { return &Q.Ident{Name: vfOpaque(g.nm("id"), "v")} }

func (g *vfGen) leaf(f func() Q.Node) Q.Node {
	g.level++
	n := f()
	g.level--
	return n
}

func (g *vfGen) leafExpr() Q.Expr {
	id := g.ident()
	if g.pathField == "" || g.pathField == "#nested" {
		id.Path = g.exprPath
	}
	if id.Path != "" {
		g.made = append(g.made, id)
	}
	return id
}

func (g *vfGen) leafExprAt(typ, field string) Q.Expr {
	switch g.exprLeaf {
	case 1:
		return &Q.BasicLit{Kind: token.INT, Value: vfOpaque(g.nm("lit"), "1")}
	case 2:
		return &Q.Ellipsis{}
	}
	id := g.ident()
	if g.pathField == "" || g.pathField == typ+"."+field {
		id.Path = g.exprPath
	}
	if id.Path != "" {
		g.made = append(g.made, id)
	}
	return id
}
func (g *vfGen) leafStmt() Q.Stmt {
	switch g.stmtLeaf {
	case 1:
		return &Q.EmptyStmt{Implicit: true}
	case 2:
		return &Q.EmptyStmt{}
	case 3:
		return &Q.BranchStmt{Tok: token.BREAK}
	}
	return &Q.ExprStmt{X: g.ident()}
}
func (g *vfGen) leafDecl() Q.Decl {
	return &Q.GenDecl{Tok: token.VAR, Specs: []Q.Spec{&Q.ValueSpec{Names: []*Q.Ident{g.ident()}, Type: g.ident()}}}
}
func (g *vfGen) leafSpec() Q.Spec { return &Q.ValueSpec{Names: []*Q.Ident{g.ident()}, Type: g.ident()} }

`, "Q.", q))

	// leaf constructors for pointer children
	w("func (g *vfGen) leafPtr(typ string) %sNode {\n\tswitch typ {\n", q)
	w("\tcase \"Ident\":\n\t\treturn g.ident()\n")
	w("\tcase \"BasicLit\":\n\t\treturn &%sBasicLit{Kind: token.INT, Value: vfOpaque(g.nm(\"lit\"), \"1\")}\n", q)
	w("\tcase \"BlockStmt\":\n\t\treturn &%sBlockStmt{}\n", q)
	w("\tcase \"FieldList\":\n\t\treturn &%sFieldList{Opening: true, Closing: true}\n", q)
	w("\tcase \"FuncType\":\n\t\treturn &%sFuncType{Func: true, Params: &%sFieldList{Opening: true, Closing: true}}\n", q, q)
	w("\tcase \"CallExpr\":\n\t\treturn &%sCallExpr{Fun: g.ident()}\n", q)
	w("\tcase \"Field\":\n\t\treturn &%sField{Type: g.leafExpr()}\n", q)
	w("\tcase \"File\":\n\t\treturn &%sFile{Name: g.ident()}\n", q)
	w("\t}\n\tpanic(\"vfGen: no leaf for \" + typ)\n}\n\n")

	w("func (g *vfGen) child(typ string) %sNode {\n\tif g.depth <= 0 {\n\t\treturn g.leafPtr(typ)\n\t}\n\tg.depth--\n\tg.level++\n\tdefer func() { g.level-- }()\n\tsp, fl, tk := g.spaces, g.symFlags, g.symToks\n\tg.spaces, g.symFlags, g.symToks = false, false, false\n\tn := g.Node(typ)\n\tg.spaces, g.symFlags, g.symToks = sp, fl, tk\n\tg.depth++\n\treturn n\n}\n\n", q)

	var names []string
	for _, t := range types {
		names = append(names, t.Name)
	}
	w("var vfNodeTypes = []string{")
	for _, n := range names {
		w("%q, ", n)
	}
	w("}\n\n")
	w("type vfNodeInfoT struct {\n\tStmtFields []string // fields holding a Stmt or a list of Stmt\n\tExprFields []string // fields holding an Expr or a list of Expr\n\tPoints   []string\n\tOptional []string // optional child fields (documented \"or nil\")\n\tChildren []string // node-valued fields (single)\n\tLists    []string // list-valued fields\n\tIface    string\n}\n\n")
	w("var vfNodeInfo = map[string]vfNodeInfoT{\n")
	for _, t := range types {
		w("\t%q: {Points: []string{", t.Name)
		for _, p := range t.Points {
			w("%q, ", p)
		}
		w("}, Optional: []string{")
		for _, f := range t.Fields {
			if f.Optional && (f.Kind == "ptr" || f.Kind == "iface") {
				w("%q, ", f.Name)
			}
		}
		w("}, Children: []string{")
		for _, f := range t.Fields {
			if f.Kind == "ptr" || f.Kind == "iface" {
				w("%q, ", f.Name)
			}
		}
		w("}, Lists: []string{")
		for _, f := range t.Fields {
			if f.Kind == "list" {
				w("%q, ", f.Name)
			}
		}
		w("}, StmtFields: []string{")
		for _, f := range t.Fields {
			if (f.Kind == "iface" || f.Kind == "list") && f.Elem == "Stmt" {
				w("%q, ", f.Name)
			}
		}
		w("}, ExprFields: []string{")
		for _, f := range t.Fields {
			if (f.Kind == "iface" || f.Kind == "list") && f.Elem == "Expr" {
				w("%q, ", f.Name)
			}
		}
		w("}, Iface: %q},\n", t.Iface)
	}
	w("}\n\n")

	// dispatcher
	w("func (g *vfGen) Node(typ string) %sNode {\n\tswitch typ {\n", q)
	for _, t := range types {
		if t.Name == "Package" {
			continue
		}
		w("\tcase %q:\n\t\treturn g.gen%s()\n", t.Name, t.Name)
	}
	w("\t}\n\tpanic(\"vfGen: unknown node type \" + typ)\n}\n\n")

	for _, t := range types {
		if t.Name == "Package" {
			continue
		}
		w("func (g *vfGen) gen%s() *%s%s {\n\tn := &%s%s{}\n", t.Name, q, t.Name, q, t.Name)
		for _, f := range t.Fields {
			switch f.Kind {
			case "ptr":
				w("\tif g.present(%q, %q, %v) {\n\t\tn.%s = g.child(%q).(*%s%s)\n\t}\n", t.Name, f.Name, f.Optional, f.Name, f.Elem, q, f.Elem)
			case "iface":
				leaf := map[string]string{"Expr": fmt.Sprintf("g.leafExprAt(%q, %q)", t.Name, f.Name), "Stmt": "g.leafStmt()", "Decl": "g.leafDecl()", "Spec": "g.leafSpec()", "Node": "g.leafExpr()"}[f.Elem]
				w("\tif g.present(%q, %q, %v) {\n\t\tn.%s = %s\n\t}\n", t.Name, f.Name, f.Optional, f.Name, leaf)
			case "list":
				et := f.Elem
				var mk string
				if strings.HasPrefix(et, "*") {
					mk = fmt.Sprintf("g.child(%q).(*%s%s)", et[1:], q, et[1:])
					et = "*" + q + et[1:]
				} else {
					mk = map[string]string{"Expr": fmt.Sprintf("g.leafExprAt(%q, %q)", t.Name, f.Name), "Stmt": "g.leafStmt()", "Decl": "g.leafDecl()", "Spec": "g.leafSpec()"}[et]
					et = q + et
				}
				w("\tif g.listLen > 0 {\n\t\tn.%s = make([]%s, 0, g.listLen+g.spare)\n\t\tfor i := 0; i < g.listLen; i++ {\n\t\t\tn.%s = append(n.%s, %s)\n\t\t}\n\t}\n", f.Name, et, f.Name, f.Name, mk)
			case "tok":
				w("\tn.%s = g.tok(", f.Name)
				for _, c := range tokDefault(t.Name, f.Name) {
					w("token.%s, ", c)
				}
				w(")\n")
			case "bool":
				w("\tn.%s = g.flag()\n", f.Name)
			case "string":
				if t.Name == "BasicLit" {
					w("\tn.%s = vfOpaque(g.nm(\"lit\"), \"1\")\n", f.Name)
				} else if f.Name == "Path" {
					// import path of an identifier: left empty (import management is a separate concern)
				} else {
					w("\tn.%s = vfOpaque(g.nm(\"s\"), \"v\")\n", f.Name)
				}
			case "int":
				w("\tn.%s = vfInt(g.nm(\"len\"), 0, 1<<16)\n", f.Name)
			case "chandir":
				w("\tn.%s = %sChanDir(vfInt(g.nm(\"dir\"), 1, 3))\n", f.Name, q)
			}
		}
		if len(t.Points) > 0 {
			w("\tn.Decs.Before = g.space()\n\tn.Decs.After = g.space()\n")
			for _, p := range t.Points {
				w("\tn.Decs.%s = g.decs(%q, %q)\n", p, t.Name, p)
			}
		}
		w("\treturn n\n}\n\n")
	}

	// per-type entry points
	var entries []string
	for _, b := range bases {
		for _, t := range types {
			if t.Name == "Package" {
				continue
			}
			e := fmt.Sprintf("Verif%s_%s", b, t.Name)
			entries = append(entries, e)
			w("func %s() { vfPerType_%s(%q) }\n", e, b, t.Name)
		}
	}
	if err := os.WriteFile(outFile, []byte(sb.String()), 0o644); err != nil {
		return nil, err
	}
	return entries, nil
}
