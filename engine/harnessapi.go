package main

import (
	"fmt"
	"go/token"
	"go/types"
	"strings"

	"golang.org/x/tools/go/ssa"
)

type ssaFunction = ssa.Function

var extraAPI []func(ex *Exec)

var lssTok = token.LSS

func (ex *Exec) makeWrapError(msg *StrV, inner IfaceV) Value {
	var fmtPkg *ssa.Package
	for _, p := range ex.prog.AllPackages() {
		if p.Pkg.Path() == "fmt" {
			fmtPkg = p
		}
	}
	if fmtPkg == nil || fmtPkg.Type("wrapError") == nil {
		ex.unsupported("fmt.wrapError not available")
	}
	nt := fmtPkg.Type("wrapError").Type()
	o := ex.newObj(&StructV{fields: []Value{msg, inner}}, nt, "wrapError")
	return IfaceV{t: types.NewPointer(nt), v: PtrV{obj: o}}
}

func (ex *Exec) errorsUnwrap(e IfaceV) Value {
	if e.t == nil {
		return IfaceV{}
	}
	if strings.HasSuffix(e.t.String(), "fmt.wrapError") {
		return ex.load(subPtr(e.v.(PtrV), 1))
	}
	ms := ex.prog.MethodSets.MethodSet(e.t)
	for i := 0; i < ms.Len(); i++ {
		if ms.At(i).Obj().Name() == "Unwrap" {
			fn := ex.prog.MethodValue(ms.At(i))
			sig := fn.Signature
			if sig.Results().Len() == 1 && sig.Params().Len() == 0 {
				return ex.callSSA(ex.curFrame, fn, []Value{e.v}, nil)
			}
		}
	}
	return IfaceV{}
}

func (ex *Exec) errorsIs(err, target IfaceV) Value {
	for k := 0; k < 16; k++ {
		if err.t == nil {
			return ex.tf.Bool(target.t == nil)
		}
		if target.t != nil && types.Identical(err.t, target.t) && types.Comparable(err.t) {
			if eq := ex.equal(err, target); ex.branch(eq) {
				return ex.tf.Bool(true)
			}
		}
		nx, _ := ex.errorsUnwrap(err).(IfaceV)
		if nx.t == nil {
			return ex.tf.Bool(false)
		}
		err = nx
	}
	ex.unsupported("errors.Is chain too long")
	return nil
}

// initHarnessAPI registers the vf* functions every harness package declares (see harness/rt/rt.go).
func (ex *Exec) initHarnessAPI() {
	tf := ex.tf
	in := ex.intr
	in["vf:vfInt"] = func(ex *Exec, fr *Frame, a []Value) Value {
		name := ex.varName(ex.concStr(a[0], "vfInt name"))
		lo, hi := a[1].(*Term), a[2].(*Term)
		v := tf.Var(name, 64)
		if lo.IsConst() && hi.IsConst() {
			v = tf.VarRanged(name, 64, lo.SVal(), hi.SVal())
		}
		c := tf.And(tf.Cmp("bvsle", lo, v), tf.Cmp("bvsle", v, hi))
		if !ex.feasibleNoFork(c) {
			panic(pathEnd{"infeasible", "vfInt empty range"})
		}
		ex.addPC(c)
		ex.inputs = append(ex.inputs, inputDesc{Name: name, Kind: "int"})
		return v
	}
	in["vf:vfBool"] = func(ex *Exec, fr *Frame, a []Value) Value {
		name := ex.varName(ex.concStr(a[0], "vfBool name"))
		ex.inputs = append(ex.inputs, inputDesc{Name: name, Kind: "bool"})
		return tf.Var(name, 0)
	}
	in["vf:vfChoice"] = func(ex *Exec, fr *Frame, a []Value) Value {
		name := ex.varName(ex.concStr(a[0], "vfChoice name"))
		n := int(ex.concInt(a[1], "vfChoice n"))
		c := ex.choice(n)
		ex.choiceLog = append(ex.choiceLog, choiceRec{name, c})
		return tf.Const(64, uint64(c))
	}
	// vfOpaque(name, prefix): prefix + opaque tail. The tail has symbolic length in [0, 65536), contains
	// no newline, quote, backslash or non-printable byte (stated assumption of every harness using it).
	in["vf:vfOpaque"] = func(ex *Exec, fr *Frame, a []Value) Value {
		name := ex.varName(ex.concStr(a[0], "vfOpaque name"))
		prefix := ex.concStr(a[1], "vfOpaque prefix")
		op := ex.newOpaque(name)
		tf.VarRanged(name+".len", 64, 0, 1<<16-1)
		c := tf.And(tf.Cmp("bvsle", tf.Const(64, 0), op.len), tf.Cmp("bvslt", op.len, tf.Const(64, 1<<16)))
		ex.addPC(c)
		ex.inputs = append(ex.inputs, inputDesc{Name: name, Kind: "opaque", Prefix: prefix})
		segs := append([]seg{}, ex.strSegs(ex.cstr(prefix))...)
		segs = append(segs, seg{op: op})
		return ex.mkStr(segs)
	}
	// vfBytes(name, n, alphabet): string of exactly n symbolic bytes drawn from alphabet
	// ("" = printable ASCII without quote/backslash).
	in["vf:vfBytes"] = func(ex *Exec, fr *Frame, a []Value) Value {
		name := ex.varName(ex.concStr(a[0], "vfBytes name"))
		n := int(ex.concretize(ex.toInt(a[1]), "vfBytes n"))
		alpha := ex.concStr(a[2], "vfBytes alphabet")
		segs := make([]seg, n)
		for i := 0; i < n; i++ {
			b := tf.Var(fmt.Sprintf("%s.b%d", name, i), 8)
			var c *Term
			if alpha == "" {
				c = tf.AndN(tf.Cmp("bvuge", b, tf.Const(8, 0x20)), tf.Cmp("bvult", b, tf.Const(8, 0x7f)),
					tf.Not(tf.Eq(b, tf.Const(8, '"'))), tf.Not(tf.Eq(b, tf.Const(8, '\\'))))
			} else {
				c = tf.Bool(false)
				for k := 0; k < len(alpha); k++ {
					c = tf.Or(c, tf.Eq(b, tf.Const(8, uint64(alpha[k]))))
				}
			}
			ex.addPC(c)
			segs[i] = seg{b: b}
		}
		ex.inputs = append(ex.inputs, inputDesc{Name: name, Kind: "bytes", N: n})
		return ex.mkStr(segs)
	}
	in["vf:vfAssume"] = func(ex *Exec, fr *Frame, a []Value) Value {
		c := a[0].(*Term)
		if c.IsTrue() {
			return nil
		}
		if !ex.feasibleNoFork(c) {
			panic(pathEnd{"infeasible", "assume"})
		}
		ex.addPC(c)
		return nil
	}
	in["vf:vfAssert"] = func(ex *Exec, fr *Frame, a []Value) Value {
		ex.assert(a[0].(*Term), ex.concStr(a[1], "vfAssert id"))
		return nil
	}
	in["vf:vfReach"] = func(ex *Exec, fr *Frame, a []Value) Value {
		ex.reached[ex.concStr(a[0], "vfReach label")] = true
		return nil
	}
	in["vf:vfObserve"] = func(ex *Exec, fr *Frame, a []Value) Value {
		ex.obsLog = append(ex.obsLog, obsEntry{ex.concStr(a[0], "vfObserve name"), ex.toInt(a[1])})
		return nil
	}
	in["vf:vfObserveStr"] = func(ex *Exec, fr *Frame, a []Value) Value {
		// strings are observed through their length only (content of opaque chunks is not modelled)
		ex.obsLog = append(ex.obsLog, obsEntry{ex.concStr(a[0], "vfObserveStr name") + ".len", ex.strLen(a[1].(*StrV))})
		return nil
	}
	in["vf:vfAnd"] = func(ex *Exec, fr *Frame, a []Value) Value { return tf.And(a[0].(*Term), a[1].(*Term)) }
	in["vf:vfOr"] = func(ex *Exec, fr *Frame, a []Value) Value { return tf.Or(a[0].(*Term), a[1].(*Term)) }
	in["vf:vfNot"] = func(ex *Exec, fr *Frame, a []Value) Value { return tf.Not(a[0].(*Term)) }
	in["vf:vfImplies"] = func(ex *Exec, fr *Frame, a []Value) Value { return tf.Implies(a[0].(*Term), a[1].(*Term)) }
	in["vf:vfIte"] = func(ex *Exec, fr *Frame, a []Value) Value {
		return tf.Ite(a[0].(*Term), a[1].(*Term), a[2].(*Term))
	}
	in["vf:vfB2I"] = func(ex *Exec, fr *Frame, a []Value) Value {
		return tf.Ite(a[0].(*Term), tf.Const(64, 1), tf.Const(64, 0))
	}
	in["vf:vfStrEq"] = func(ex *Exec, fr *Frame, a []Value) Value { return ex.equal(a[0], a[1]) }
	in["vf:vfExpectPanic"] = func(ex *Exec, fr *Frame, a []Value) (res Value) {
		savedFrame := ex.curFrame
		defer func() {
			if r := recover(); r != nil {
				if _, ok := r.(*goPanic); ok {
					ex.curFrame = savedFrame
					res = tf.Bool(true)
					return
				}
				panic(r)
			}
		}()
		ex.call(fr, a[0], nil, nil)
		return tf.Bool(false)
	}
	// vfCapFork(on): from now on append growth capacity is a forked choice {needed, needed+1}
	in["vf:vfCapFork"] = func(ex *Exec, fr *Frame, a []Value) Value {
		ex.capFork = a[0].(*Term).IsTrue()
		return nil
	}
	in["vf:vfMapOrderFork"] = func(ex *Exec, fr *Frame, a []Value) Value {
		ex.mapOrderFork = a[0].(*Term).IsTrue()
		return nil
	}
	// vfMakeStrings(name, n, spare, kind): []string with len n, cap n+spare, fresh array, opaque elements
	in["vf:vfSharesStrings"] = func(ex *Exec, fr *Frame, a []Value) Value {
		x, y := a[0].(SliceV), a[1].(SliceV)
		if x.arr == nil || y.arr == nil || x.arr != y.arr {
			return tf.Bool(false)
		}
		// same array: overlap of [off, off+cap)
		return tf.Bool(x.off < y.off+y.cap && y.off < x.off+x.cap && x.cap > 0 && y.cap > 0)
	}
	in["vf:vfNoAlias"] = func(ex *Exec, fr *Frame, a []Value) Value {
		return tf.Bool(ex.noAlias(a[0], a[1]))
	}
	in["vf:vfNativeRepeats"] = func(ex *Exec, fr *Frame, a []Value) Value { return tf.Const(64, 1) }
	in["vf:vfTier"] = func(ex *Exec, fr *Frame, a []Value) Value { return tf.Const(64, uint64(ex.tier)) }
	in["vf:vfEvent"] = func(ex *Exec, fr *Frame, a []Value) Value {
		ex.events = append(ex.events, ex.concStr(a[0], "vfEvent"))
		return nil
	}
	for _, f := range extraAPI {
		f(ex)
	}
	in["vf:vfTypeName"] = func(ex *Exec, fr *Frame, a []Value) Value {
		iv := a[0].(IfaceV)
		if iv.t == nil {
			return ex.cstr("<nil>")
		}
		return ex.cstr(types.TypeString(iv.t, func(p *types.Package) string { return p.Name() }))
	}
}

// reachableArrays collects backing arrays and maps reachable from v (through pointers, slices, ifaces).
func (ex *Exec) reachable(v Value, arrs map[*Obj]bool, maps map[*MapV]bool, seen map[*Obj]bool) {
	switch x := v.(type) {
	case PtrV:
		if x.obj == nil || seen[x.obj] {
			return
		}
		seen[x.obj] = true
		arrs[x.obj] = true
		ex.reachable(x.obj.v, arrs, maps, seen)
	case *StructV:
		for _, f := range x.fields {
			ex.reachable(f, arrs, maps, seen)
		}
	case *ArrayV:
		for _, f := range x.elems {
			ex.reachable(f, arrs, maps, seen)
		}
	case SliceV:
		if x.arr == nil {
			return
		}
		arrs[x.arr] = true
		if seen[x.arr] {
			return
		}
		seen[x.arr] = true
		ex.reachable(x.arr.v, arrs, maps, seen)
	case IfaceV:
		if x.t != nil {
			ex.reachable(x.v, arrs, maps, seen)
		}
	case *MapV:
		if x == nil || maps[x] {
			return
		}
		maps[x] = true
		for _, e := range x.entries {
			ex.reachable(e.key, arrs, maps, seen)
			ex.reachable(e.val, arrs, maps, seen)
		}
	}
}

// noAlias: no heap object (allocation, backing array, map) is reachable from both a and b.
func (ex *Exec) noAlias(a, b Value) bool {
	aa, am := map[*Obj]bool{}, map[*MapV]bool{}
	ba, bm := map[*Obj]bool{}, map[*MapV]bool{}
	ex.reachable(a, aa, am, map[*Obj]bool{})
	ex.reachable(b, ba, bm, map[*Obj]bool{})
	for o := range aa {
		if ba[o] {
			return false
		}
	}
	for m := range am {
		if bm[m] {
			return false
		}
	}
	return true
}

// assert discharges an obligation: pc ∧ ¬c must be unsat.
func (ex *Exec) assert(c *Term, id string) {
	ex.stats.Obligations++
	if c.IsTrue() {
		ex.stats.Discharged++
		ex.stats.Trivial++
		return
	}
	if ex.tracePos < len(ex.forced) {
		// replaying a prefix: this obligation was already decided on the path that created the fork
		ex.stats.Obligations--
		ex.addPC(c)
		return
	}
	q := append(append([]*Term{}, ex.pc...), ex.tf.Not(c))
	r, m := ex.check(q, true)
	ex.stats.noteSample(id, c)
	if r == Unsat && len(ex.xsolvers) > 0 {
		// cross-check the verdict on the other back ends (bit-vector encoding; z3-new, cvc5)
		for _, xs := range ex.xsolvers {
			xr, _ := xs.Check(q, false)
			ex.stats.CrossChecked++
			if xr != Unsat {
				ex.stats.CrossDisagree++
				ex.stats.Inconclusive = append(ex.stats.Inconclusive, fmt.Sprintf("solver disagreement on %s: z3=unsat %s=%s", id, xs.name, xr))
				r = Unknown
			}
		}
	}
	switch r {
	case Unsat:
		ex.stats.Discharged++
		ex.addPC(c)
	case Sat:
		ex.violation("assert", id, "assertion "+id+" can fail "+ex.lastDiff, m)
		ex.lastDiff = ""
		// continue under the assumption that it holds, if possible
		if !ex.feasible(c) {
			panic(pathEnd{"done", "assertion always fails"})
		}
		ex.addPC(c)
	default:
		ex.stats.Inconclusive = append(ex.stats.Inconclusive, "solver unknown on assertion "+id)
		ex.addPC(c)
	}
}

func (ex *Exec) violation(kind, id, msg string, m map[string]uint64) {
	tr := make([]int64, len(ex.trace))
	for i, d := range ex.trace {
		tr[i] = d.val
	}
	where := ""
	if ex.curFrame != nil {
		where = ex.curFrame.fn.String()
	}
	v := &Violation{Harness: ex.harness, ID: id, Kind: kind, Msg: msg, Model: m, Trace: tr, Where: where}
	v.Replay = ex.buildReplay(m)
	ex.stats.Violations = append(ex.stats.Violations, v)
}

// deepEqual builds a Bool term: structural equality of two values (like reflect.DeepEqual, with
// pointer targets compared recursively and cycles cut by a visited set).
func (ex *Exec) deepEqual(a, b Value, seen map[[2]*Obj]bool) *Term {
	tf := ex.tf
	switch x := a.(type) {
	case *Term:
		y, ok := b.(*Term)
		if !ok || x.w != y.w {
			return tf.Bool(false)
		}
		return tf.Eq(x, y)
	case *StrV:
		y, ok := b.(*StrV)
		if !ok {
			return tf.Bool(false)
		}
		t, ok2 := ex.strEq(x, y)
		if !ok2 {
			ex.unsupported(fmt.Sprintf("deep equality of strings undecidable: %s vs %s", x, y))
		}
		return t
	case PtrV:
		y, ok := b.(PtrV)
		if !ok {
			return tf.Bool(false)
		}
		if x.obj == nil || y.obj == nil {
			return tf.Bool(x.obj == nil && y.obj == nil)
		}
		if ptrEq(x, y) {
			return tf.Bool(true)
		}
		if len(x.path) == 0 && len(y.path) == 0 {
			k := [2]*Obj{x.obj, y.obj}
			if seen[k] {
				return tf.Bool(true)
			}
			seen[k] = true
		}
		return ex.deepEqual(ex.loadRaw(x), ex.loadRaw(y), seen)
	case *StructV:
		y, ok := b.(*StructV)
		if !ok || len(x.fields) != len(y.fields) {
			return tf.Bool(false)
		}
		r := tf.Bool(true)
		for i := range x.fields {
			r = tf.And(r, ex.deepEqual(x.fields[i], y.fields[i], seen))
			if r.IsFalse() {
				return r
			}
		}
		return r
	case *ArrayV:
		y, ok := b.(*ArrayV)
		if !ok || len(x.elems) != len(y.elems) {
			return tf.Bool(false)
		}
		r := tf.Bool(true)
		for i := range x.elems {
			r = tf.And(r, ex.deepEqual(x.elems[i], y.elems[i], seen))
		}
		return r
	case SliceV:
		y, ok := b.(SliceV)
		if !ok {
			return tf.Bool(false)
		}
		if (x.arr == nil) != (y.arr == nil) || x.len != y.len {
			return tf.Bool(false)
		}
		r := tf.Bool(true)
		for i := 0; i < x.len; i++ {
			r = tf.And(r, ex.deepEqual(x.arr.v.(*ArrayV).elems[x.off+i], y.arr.v.(*ArrayV).elems[y.off+i], seen))
			if r.IsFalse() {
				return r
			}
		}
		return r
	case IfaceV:
		y, ok := b.(IfaceV)
		if !ok {
			return tf.Bool(false)
		}
		if x.t == nil || y.t == nil {
			return tf.Bool(x.t == nil && y.t == nil)
		}
		if !types.Identical(x.t, y.t) {
			return tf.Bool(false)
		}
		return ex.deepEqual(x.v, y.v, seen)
	case *MapV:
		y, _ := b.(*MapV)
		if x == nil || y == nil {
			return tf.Bool(x == nil && y == nil)
		}
		if x == y {
			return tf.Bool(true)
		}
		lx, ly := x.live(), y.live()
		if len(lx) != len(ly) {
			return tf.Bool(false)
		}
		r := tf.Bool(true)
		for _, e := range lx {
			var m *mapEntry
			for _, e2 := range ly {
				if ex.equal(e.key, e2.key).IsTrue() {
					m = e2
				}
			}
			if m == nil {
				return tf.Bool(false)
			}
			r = tf.And(r, ex.deepEqual(e.val, m.val, seen))
		}
		return r
	case *FuncV:
		y, _ := b.(*FuncV)
		return tf.Bool(x == nil && y == nil)
	case nil:
		return tf.Bool(b == nil)
	}
	ex.unsupported(fmt.Sprintf("deepEqual on %T", a))
	return nil
}

// loadRaw reads without copying aggregates (read-only use).
func (ex *Exec) loadRaw(p PtrV) Value {
	v := p.obj.v
	for _, i := range p.path {
		switch x := v.(type) {
		case *StructV:
			v = x.fields[i]
		case *ArrayV:
			v = x.elems[i]
		}
	}
	return v
}

// fieldByName: v is an interface holding a pointer to a struct (or a struct); returns field value as interface.
func (ex *Exec) fieldByName(iv IfaceV, name string) (Value, types.Type, bool) {
	if iv.t == nil {
		return nil, nil, false
	}
	t := iv.t
	v := iv.v
	if pt, ok := t.Underlying().(*types.Pointer); ok {
		p := v.(PtrV)
		if p.obj == nil {
			return nil, nil, false
		}
		v = ex.loadRaw(p)
		t = pt.Elem()
	}
	st, ok := t.Underlying().(*types.Struct)
	if !ok {
		return nil, nil, false
	}
	for i := 0; i < st.NumFields(); i++ {
		if st.Field(i).Name() == name {
			return copyAgg(v.(*StructV).fields[i]), st.Field(i).Type(), true
		}
	}
	return nil, nil, false
}

func init() {
	extraAPI = append(extraAPI, func(ex *Exec) {
		tf := ex.tf
		ex.intr["vf:vfDeepEqual"] = func(ex *Exec, fr *Frame, a []Value) Value {
			r := ex.deepEqual(a[0], a[1], map[[2]*Obj]bool{})
			if !r.IsTrue() {
				ex.lastDiff = ex.deepDiff(a[0], a[1], "", map[[2]*Obj]bool{})
			}
			return r
		}
		// vfField(v, "Name") -> field value boxed in interface{}; nil interface if absent
		ex.intr["vf:vfField"] = func(ex *Exec, fr *Frame, a []Value) Value {
			v, t, ok := ex.fieldByName(a[0].(IfaceV), ex.concStr(a[1], "vfField name"))
			if !ok {
				return IfaceV{}
			}
			if _, isI := t.Underlying().(*types.Interface); isI {
				return v
			}
			return IfaceV{t: t, v: v}
		}
		// vfFieldPos(v, "Name") -> (pos, ok) for token.Pos fields
		ex.intr["vf:vfFieldPos"] = func(ex *Exec, fr *Frame, a []Value) Value {
			v, t, ok := ex.fieldByName(a[0].(IfaceV), ex.concStr(a[1], "vfFieldPos name"))
			if !ok || t.String() != "go/token.Pos" {
				return TupleV{tf.Const(64, 0), tf.Bool(false)}
			}
			return TupleV{v, tf.Bool(true)}
		}
		// vfFieldElem(v, "Name", i): element i of slice field Name (i < 0: the field itself), boxed
		ex.intr["vf:vfFieldElem"] = func(ex *Exec, fr *Frame, a []Value) Value {
			v, t, ok := ex.fieldByName(a[0].(IfaceV), ex.concStr(a[1], "vfFieldElem name"))
			if !ok {
				return IfaceV{}
			}
			i := int(ex.concInt(a[2], "vfFieldElem index"))
			if i >= 0 {
				sl, isS := v.(SliceV)
				st, isT := t.Underlying().(*types.Slice)
				if !isS || !isT || i >= sl.len {
					return IfaceV{}
				}
				v, t = copyAgg(sl.arr.v.(*ArrayV).elems[sl.off+i]), st.Elem()
			}
			if _, isI := t.Underlying().(*types.Interface); isI {
				return v
			}
			return IfaceV{t: t, v: v}
		}
		// vfHasPosField(node, p): some token.Pos-typed field of the struct node points to holds p
		ex.intr["vf:vfHasPosField"] = func(ex *Exec, fr *Frame, a []Value) Value {
			iv := a[0].(IfaceV)
			p := a[1].(*Term)
			r := tf.Bool(false)
			if iv.t == nil {
				return r
			}
			pt, ok := iv.t.Underlying().(*types.Pointer)
			if !ok {
				return r
			}
			st, ok := pt.Elem().Underlying().(*types.Struct)
			if !ok {
				return r
			}
			ptr := iv.v.(PtrV)
			if ptr.obj == nil {
				return r
			}
			sv := ex.loadRaw(ptr).(*StructV)
			for i := 0; i < st.NumFields(); i++ {
				if st.Field(i).Type().String() == "go/token.Pos" {
					r = tf.Or(r, tf.Eq(sv.fields[i].(*Term), p))
				}
			}
			return r
		}
		ex.intr["vf:vfIsNil"] = func(ex *Exec, fr *Frame, a []Value) Value {
			iv := a[0].(IfaceV)
			if iv.t == nil {
				return tf.Bool(true)
			}
			switch x := iv.v.(type) {
			case PtrV:
				return tf.Bool(x.obj == nil)
			case SliceV:
				return tf.Bool(x.arr == nil)
			case *MapV:
				return tf.Bool(x == nil)
			}
			return tf.Bool(false)
		}
	})
}

// deepDiff describes the first place where two values are not trivially equal (diagnostics only).
func (ex *Exec) deepDiff(a, b Value, path string, seen map[[2]*Obj]bool) string {
	switch x := a.(type) {
	case *Term:
		y, ok := b.(*Term)
		if !ok || x.w != y.w || !ex.tf.Eq(x, y).IsTrue() {
			return fmt.Sprintf("%s: %v vs %v", path, a, b)
		}
	case *StrV:
		y, ok := b.(*StrV)
		if !ok {
			return path + ": string vs other"
		}
		if t, ok2 := ex.strEq(x, y); !ok2 || !t.IsTrue() {
			return fmt.Sprintf("%s: %s vs %s", path, x, y)
		}
	case PtrV:
		y, ok := b.(PtrV)
		if !ok {
			return path + ": pointer vs other"
		}
		if x.obj == nil || y.obj == nil {
			if x.obj != y.obj {
				return path + ": nil vs non-nil pointer"
			}
			return ""
		}
		if ptrEq(x, y) {
			return ""
		}
		k := [2]*Obj{x.obj, y.obj}
		if seen[k] {
			return ""
		}
		seen[k] = true
		return ex.deepDiff(ex.loadRaw(x), ex.loadRaw(y), path+"*", seen)
	case *StructV:
		y, ok := b.(*StructV)
		if !ok || len(x.fields) != len(y.fields) {
			return path + ": struct shape"
		}
		for i := range x.fields {
			if d := ex.deepDiff(x.fields[i], y.fields[i], fmt.Sprintf("%s.f%d", path, i), seen); d != "" {
				return d
			}
		}
	case SliceV:
		y, ok := b.(SliceV)
		if !ok || (x.arr == nil) != (y.arr == nil) || x.len != y.len {
			return fmt.Sprintf("%s: slice nil/len differs (%v,%d) vs (%v,%d)", path, x.arr == nil, x.len, y.arr == nil, y.len)
		}
		for i := 0; i < x.len; i++ {
			if d := ex.deepDiff(x.arr.v.(*ArrayV).elems[x.off+i], y.arr.v.(*ArrayV).elems[y.off+i], fmt.Sprintf("%s[%d]", path, i), seen); d != "" {
				return d
			}
		}
	case IfaceV:
		y, ok := b.(IfaceV)
		if !ok {
			return path + ": iface vs other"
		}
		if x.t == nil || y.t == nil {
			if (x.t == nil) != (y.t == nil) {
				return path + ": nil vs non-nil interface"
			}
			return ""
		}
		if !types.Identical(x.t, y.t) {
			return fmt.Sprintf("%s: dynamic type %s vs %s", path, x.t, y.t)
		}
		return ex.deepDiff(x.v, y.v, path+"("+x.t.String()+")", seen)
	case *MapV:
		y, _ := b.(*MapV)
		if (x == nil) != (y == nil) {
			return path + ": nil vs non-nil map"
		}
	}
	return ""
}

// posShifted builds a Bool term: b equals a except that every token.Pos-typed value p of a appears in b
// as p+delta (NoPos stays NoPos). The walk is typed (go/types) so that positions are recognised.
func (ex *Exec) posShifted(a, b Value, t types.Type, delta *Term, seen map[[2]*Obj]bool) *Term {
	tf := ex.tf
	if named, ok := t.(*types.Named); ok && named.Obj().Pkg() != nil && named.Obj().Pkg().Path() == "go/token" && named.Obj().Name() == "Pos" {
		x, y := a.(*Term), b.(*Term)
		zero := tf.Eq(x, tf.Const(64, 0))
		if delta == nil {
			// positions are ignored except for their validity
			return tf.Eq(zero, tf.Eq(y, tf.Const(64, 0)))
		}
		return tf.Ite(zero, tf.Eq(y, tf.Const(64, 0)), tf.Eq(y, tf.BV("bvadd", x, delta)))
	}
	switch u := t.Underlying().(type) {
	case *types.Basic:
		return ex.deepEqual(a, b, seen)
	case *types.Pointer:
		x, y := a.(PtrV), b.(PtrV)
		if x.obj == nil || y.obj == nil {
			return tf.Bool(x.obj == nil && y.obj == nil)
		}
		k := [2]*Obj{x.obj, y.obj}
		if seen[k] {
			return tf.Bool(true)
		}
		seen[k] = true
		return ex.posShifted(ex.loadRaw(x), ex.loadRaw(y), u.Elem(), delta, seen)
	case *types.Struct:
		x, y := a.(*StructV), b.(*StructV)
		r := tf.Bool(true)
		for i := 0; i < u.NumFields(); i++ {
			r = tf.And(r, ex.posShifted(x.fields[i], y.fields[i], u.Field(i).Type(), delta, seen))
			if r.IsFalse() {
				return r
			}
		}
		return r
	case *types.Slice:
		x, y := a.(SliceV), b.(SliceV)
		if (x.arr == nil) != (y.arr == nil) || x.len != y.len {
			return tf.Bool(false)
		}
		r := tf.Bool(true)
		for i := 0; i < x.len; i++ {
			r = tf.And(r, ex.posShifted(x.arr.v.(*ArrayV).elems[x.off+i], y.arr.v.(*ArrayV).elems[y.off+i], u.Elem(), delta, seen))
		}
		return r
	case *types.Interface:
		x, y := a.(IfaceV), b.(IfaceV)
		if x.t == nil || y.t == nil {
			return tf.Bool(x.t == nil && y.t == nil)
		}
		if !types.Identical(x.t, y.t) {
			return tf.Bool(false)
		}
		return ex.posShifted(x.v, y.v, x.t, delta, seen)
	case *types.Map, *types.Signature, *types.Chan:
		return tf.Bool(true) // scopes / objects are not position-bearing in the restored trees
	case *types.Array:
		x, y := a.(*ArrayV), b.(*ArrayV)
		r := tf.Bool(true)
		for i := range x.elems {
			r = tf.And(r, ex.posShifted(x.elems[i], y.elems[i], u.Elem(), delta, seen))
		}
		return r
	}
	ex.unsupported("posShifted on " + t.String())
	return nil
}

func init() {
	extraAPI = append(extraAPI, func(ex *Exec) {
		// vfSameIgnoringPos(a, b): structurally equal, every scalar equal, positions compared only for
		// validity (NoPos or not)
		ex.intr["vf:vfSameIgnoringPos"] = func(ex *Exec, fr *Frame, a []Value) Value {
			x, y := a[0].(IfaceV), a[1].(IfaceV)
			if x.t == nil || y.t == nil {
				return ex.tf.Bool(x.t == nil && y.t == nil)
			}
			if !types.Identical(x.t, y.t) {
				return ex.tf.Bool(false)
			}
			return ex.posShifted(x.v, y.v, x.t, nil, map[[2]*Obj]bool{})
		}
		ex.intr["vf:vfPosShifted"] = func(ex *Exec, fr *Frame, a []Value) Value {
			x, y := a[0].(IfaceV), a[1].(IfaceV)
			if x.t == nil || y.t == nil {
				return ex.tf.Bool(x.t == nil && y.t == nil)
			}
			if !types.Identical(x.t, y.t) {
				return ex.tf.Bool(false)
			}
			return ex.posShifted(x.v, y.v, x.t, ex.toInt(a[2]), map[[2]*Obj]bool{})
		}
	})
}
