package main

import (
	"fmt"
	"go/types"
	"strconv"
	"strings"
)

type intrinsic func(ex *Exec, fr *Frame, args []Value) Value

func (ex *Exec) concStr(v Value, what string) string {
	s := v.(*StrV)
	if !s.isC {
		ex.unsupported("symbolic string where concrete needed: " + what)
	}
	return s.conc
}

func (ex *Exec) concInt(v Value, what string) int64 {
	t := v.(*Term)
	if !t.IsConst() {
		ex.unsupported("symbolic int where concrete needed: " + what)
	}
	return t.SVal()
}

func (ex *Exec) varName(base string) string {
	k := ex.nondetOcc[base]
	ex.nondetOcc[base] = k + 1
	if k == 0 {
		return base
	}
	return fmt.Sprintf("%s#%d", base, k)
}

func errorIface(ex *Exec, msg *StrV) Value {
	// build a real *errors.errorString through the program's errors.New when available
	if fn := ex.lookupFunc("errors", "New"); fn != nil {
		return ex.callSSA(ex.curFrame, fn, []Value{msg}, nil)
	}
	ex.unsupported("errors.New not available")
	return nil
}

// hasPrefixT returns a Bool term for strings.HasPrefix(s, p) with p concrete.
func (ex *Exec) hasPrefixT(s *StrV, p string) *Term {
	tf := ex.tf
	if s.isC {
		return tf.Bool(strings.HasPrefix(s.conc, p))
	}
	segs := ex.strSegs(s)
	r := tf.Bool(true)
	for i := 0; i < len(p); i++ {
		if i >= len(segs) {
			return tf.Bool(false)
		}
		if segs[i].op != nil {
			ex.unsupported(fmt.Sprintf("HasPrefix(%s, %q) reaches opaque chunk", s, p))
		}
		r = tf.And(r, tf.Eq(segs[i].b, tf.Const(8, uint64(p[i]))))
	}
	return r
}

func (ex *Exec) hasSuffixT(s *StrV, p string) *Term {
	tf := ex.tf
	if s.isC {
		return tf.Bool(strings.HasSuffix(s.conc, p))
	}
	segs := ex.strSegs(s)
	r := tf.Bool(true)
	for i := 0; i < len(p); i++ {
		k := len(segs) - len(p) + i
		if k < 0 {
			return tf.Bool(false)
		}
		if segs[k].op != nil {
			ex.unsupported("HasSuffix reaches opaque chunk")
		}
		r = tf.And(r, tf.Eq(segs[k].b, tf.Const(8, uint64(p[i]))))
	}
	return r
}

// matchAt: Bool term "p occurs in segs at index i" (segs byte-only in the window).
func (ex *Exec) matchAt(segs []seg, i int, p string) (*Term, bool) {
	tf := ex.tf
	r := tf.Bool(true)
	for k := 0; k < len(p); k++ {
		if i+k >= len(segs) {
			return tf.Bool(false), true
		}
		if segs[i+k].op != nil {
			return nil, false
		}
		r = tf.And(r, tf.Eq(segs[i+k].b, tf.Const(8, uint64(p[k]))))
	}
	return r, true
}

// containsT: Bool term for strings.Contains(s, p), p concrete. Opaque chunks are declared free of
// '\n' and of '"' and '\\'; for other patterns touching an opaque chunk the answer is unsupported.
func (ex *Exec) containsT(s *StrV, p string) *Term {
	tf := ex.tf
	if s.isC {
		return tf.Bool(strings.Contains(s.conc, p))
	}
	segs := ex.strSegs(s)
	r := tf.Bool(false)
	for i := 0; i < len(segs); i++ {
		if segs[i].op != nil {
			if strings.ContainsAny(p, "\n") {
				continue // opaque chunks contain no newline: no match can overlap one
			}
			ex.unsupported(fmt.Sprintf("Contains(%s, %q) over opaque chunk", s, p))
		}
		m, ok := ex.matchAt(segs, i, p)
		if !ok {
			if strings.ContainsAny(p, "\n") {
				// a match overlapping an opaque chunk would need the chunk to hold part of p;
				// only safe to skip when every byte of p is a newline
				if strings.Trim(p, "\n") == "" {
					continue
				}
			}
			ex.unsupported(fmt.Sprintf("Contains(%s, %q) overlaps opaque chunk", s, p))
		}
		r = tf.Or(r, m)
	}
	return r
}

func (ex *Exec) lookupFunc(pkg, name string) *ssaFunction {
	for _, p := range ex.prog.AllPackages() {
		if p.Pkg.Path() == pkg {
			return p.Func(name)
		}
	}
	return nil
}

func (ex *Exec) byteOnly(s *StrV, what string) []seg {
	segs := ex.strSegs(s)
	for _, sg := range segs {
		if sg.op != nil {
			ex.unsupported(what + " on opaque string")
		}
	}
	return segs
}

// indexT returns an int term for strings.Index / LastIndex on byte-only strings.
func (ex *Exec) indexT(s *StrV, p string, last bool) *Term {
	tf := ex.tf
	if s.isC {
		if last {
			return tf.Const(64, uint64(int64(strings.LastIndex(s.conc, p))))
		}
		return tf.Const(64, uint64(int64(strings.Index(s.conc, p))))
	}
	segs := ex.byteOnly(s, "Index")
	r := tf.Const(64, ^uint64(0))
	if last {
		for i := 0; i+len(p) <= len(segs); i++ {
			m, _ := ex.matchAt(segs, i, p)
			r = tf.Ite(m, tf.Const(64, uint64(i)), r)
		}
		return r
	}
	for i := len(segs) - len(p); i >= 0; i-- {
		m, _ := ex.matchAt(segs, i, p)
		r = tf.Ite(m, tf.Const(64, uint64(i)), r)
	}
	return r
}

func (ex *Exec) toGo(v Value) (interface{}, bool) {
	switch x := v.(type) {
	case *Term:
		if !x.IsConst() {
			return nil, false
		}
		if x.w == 0 {
			return x.val == 1, true
		}
		return x.SVal(), true
	case *StrV:
		if !x.isC {
			return nil, false
		}
		return x.conc, true
	case IfaceV:
		if x.t == nil {
			return nil, true
		}
		if n, ok := x.t.(*types.Named); ok && n.Obj().Pkg() != nil && n.Obj().Pkg().Path() == "go/token" && n.Obj().Name() == "Token" {
			return nil, false
		}
		return ex.toGo(x.v)
	}
	return nil, false
}

// runeCount: bytes are ASCII (one rune each); an opaque chunk has a symbolic rune count between half its
// length and its length (it may contain two-byte UTF-8 letters).
func (ex *Exec) runeCount(s *StrV) *Term {
	tf := ex.tf
	if s.isC {
		return tf.Const(64, uint64(len([]rune(s.conc))))
	}
	n := 0
	var t *Term
	for _, sg := range ex.strSegs(s) {
		if sg.op == nil {
			n++
			continue
		}
		rv := tf.VarRanged(sg.op.name+".runes", 64, 0, 1<<16-1)
		c := tf.AndN(tf.Cmp("bvsle", tf.Const(64, 0), rv), tf.Cmp("bvsle", rv, sg.op.len), tf.Cmp("bvsle", sg.op.len, tf.BV("bvadd", rv, rv)))
		ex.assumeInternal(c, "rune count of an opaque string chunk lies between half its byte length and its byte length")
		if t == nil {
			t = rv
		} else {
			t = tf.BV("bvadd", t, rv)
		}
	}
	if t == nil {
		return tf.Const(64, uint64(n))
	}
	return tf.BV("bvadd", t, tf.Const(64, uint64(n)))
}

func (ex *Exec) methodByName(t types.Type, name string) *ssaFunction {
	ms := ex.prog.MethodSets.MethodSet(t)
	for i := 0; i < ms.Len(); i++ {
		if ms.At(i).Obj().Name() == name {
			fn := ex.prog.MethodValue(ms.At(i))
			if fn != nil && fn.Blocks != nil {
				return fn
			}
		}
	}
	return nil
}

func (ex *Exec) sliceElems(v Value) []Value {
	s := v.(SliceV)
	out := make([]Value, s.len)
	for i := 0; i < s.len; i++ {
		out[i] = s.arr.v.(*ArrayV).elems[s.off+i]
	}
	return out
}

func (ex *Exec) newOpaque(name string) *Opaque {
	ex.objCount++
	lv := ex.tf.Var(name+".len", 64)
	return &Opaque{id: ex.objCount, name: name, len: lv}
}

func (ex *Exec) sprintf(args []Value) Value {
	f, ok := args[0].(*StrV)
	if ok && f.isC {
		vals := ex.sliceElems(args[1])
		// special: "%s%d" etc with symbolic string parts -> build by concatenation
		if strings.Count(f.conc, "%") == len(vals) {
			out := ex.cstr("")
			rest := f.conc
			okAll := true
			for _, a := range vals {
				i := strings.IndexByte(rest, '%')
				if i < 0 || i+1 >= len(rest) {
					okAll = false
					break
				}
				out = ex.strConcat(out, ex.cstr(rest[:i]))
				verb := rest[i+1]
				rest = rest[i+2:]
				iv, _ := a.(IfaceV)
				switch verb {
				case 's', 'v':
					if sv, isS := iv.v.(*StrV); isS {
						out = ex.strConcat(out, sv)
						continue
					}
					if iv.t != nil {
						// error / Stringer values: call their method like fmt does
						if m := ex.methodByName(iv.t, "Error"); m != nil {
							out = ex.strConcat(out, ex.callSSA(ex.curFrame, m, []Value{iv.v}, nil).(*StrV))
							continue
						}
						if m := ex.methodByName(iv.t, "String"); m != nil && m.Signature.Params().Len() == 0 && m.Signature.Results().Len() == 1 {
							if sv, ok := ex.callSSA(ex.curFrame, m, []Value{iv.v}, nil).(*StrV); ok {
								out = ex.strConcat(out, sv)
								continue
							}
						}
					}
					if g, ok2 := ex.toGo(iv); ok2 {
						out = ex.strConcat(out, ex.cstr(fmt.Sprintf("%"+string(verb), g)))
						continue
					}
					okAll = false
				case 'd':
					if g, ok2 := ex.toGo(iv); ok2 {
						out = ex.strConcat(out, ex.cstr(fmt.Sprintf("%d", g)))
						continue
					}
					okAll = false
				case 'q':
					if sv, isS := iv.v.(*StrV); isS {
						if sv.isC {
							out = ex.strConcat(out, ex.cstr(strconv.Quote(sv.conc)))
							continue
						}
						// symbolic: valid under the path alphabet (no quote, backslash, control, non-ASCII)
						ex.requireQuoteSafe(sv)
						out = ex.strConcat(ex.strConcat(ex.strConcat(out, ex.cstr("\"")), sv), ex.cstr("\""))
						continue
					}
					okAll = false
				default:
					okAll = false
				}
				if !okAll {
					break
				}
			}
			if okAll {
				return ex.strConcat(out, ex.cstr(rest))
			}
		}
	}
	// anything else: an opaque message
	op := ex.newOpaque(ex.varName("$sprintf"))
	ex.tf.VarRanged(op.name+".len", 64, 0, 1<<16-1)
	ex.assumeInternal(ex.tf.And(ex.tf.Cmp("bvsle", ex.tf.Const(64, 0), op.len), ex.tf.Cmp("bvslt", op.len, ex.tf.Const(64, 1<<16))), "opaque Sprintf result shorter than 65536")
	return ex.mkStr([]seg{{op: op}})
}

// requireQuoteSafe asserts (as an internal assumption) that every byte of s is printable ASCII
// other than '"' and '\\', so that %q and strconv.Unquote are the identity wrapped in quotes.
func (ex *Exec) requireQuoteSafe(s *StrV) {
	tf := ex.tf
	for _, sg := range ex.strSegs(s) {
		if sg.op != nil {
			continue // opaque chunks are declared quote-safe
		}
		if sg.b.IsConst() {
			b := byte(sg.b.val)
			if b < 0x20 || b >= 0x7f || b == '"' || b == '\\' {
				ex.unsupported("quote of string with escapes")
			}
			continue
		}
		c := tf.AndN(tf.Cmp("bvuge", sg.b, tf.Const(8, 0x20)), tf.Cmp("bvult", sg.b, tf.Const(8, 0x7f)),
			tf.Not(tf.Eq(sg.b, tf.Const(8, '"'))), tf.Not(tf.Eq(sg.b, tf.Const(8, '\\'))))
		ex.assumeInternal(c, "quote-safe bytes (printable ASCII, no quote/backslash) for %q / Unquote")
	}
}

func (ex *Exec) unquote(s *StrV) Value {
	tf := ex.tf
	nilErr := IfaceV{}
	if s.isC {
		r, err := strconv.Unquote(s.conc)
		if err != nil {
			return TupleV{ex.cstr(""), errorIface(ex, ex.cstr(err.Error()))}
		}
		return TupleV{ex.cstr(r), nilErr}
	}
	segs := ex.strSegs(s)
	if len(segs) >= 2 && segs[0].op == nil && segs[len(segs)-1].op == nil &&
		segs[0].b.IsConst() && segs[0].b.val == '"' && segs[len(segs)-1].b.IsConst() && segs[len(segs)-1].b.val == '"' {
		inner := ex.mkStr(append([]seg{}, segs[1:len(segs)-1]...))
		ex.requireQuoteSafe(inner)
		return TupleV{inner, nilErr}
	}
	_ = tf
	ex.unsupported("strconv.Unquote of symbolic string without literal quotes: " + s.String())
	return nil
}

func boolV(ex *Exec, b bool) Value { return ex.tf.Bool(b) }

func (ex *Exec) initIntrinsics() {
	tf := ex.tf
	in := map[string]intrinsic{}
	ex.intr = in
	in["strings.HasPrefix"] = func(ex *Exec, fr *Frame, a []Value) Value {
		return ex.hasPrefixT(a[0].(*StrV), ex.concStr(a[1], "HasPrefix prefix"))
	}
	in["strings.HasSuffix"] = func(ex *Exec, fr *Frame, a []Value) Value {
		return ex.hasSuffixT(a[0].(*StrV), ex.concStr(a[1], "HasSuffix suffix"))
	}
	in["strings.Contains"] = func(ex *Exec, fr *Frame, a []Value) Value {
		return ex.containsT(a[0].(*StrV), ex.concStr(a[1], "Contains substr"))
	}
	in["strings.Index"] = func(ex *Exec, fr *Frame, a []Value) Value {
		return ex.indexT(a[0].(*StrV), ex.concStr(a[1], "Index substr"), false)
	}
	in["strings.LastIndex"] = func(ex *Exec, fr *Frame, a []Value) Value {
		return ex.indexT(a[0].(*StrV), ex.concStr(a[1], "LastIndex substr"), true)
	}
	indexByte := func(ex *Exec, fr *Frame, a []Value) Value {
		c := a[1].(*Term)
		if !c.IsConst() {
			ex.unsupported("IndexByte with symbolic byte")
		}
		return ex.indexT(a[0].(*StrV), string([]byte{byte(c.val)}), false)
	}
	in["strings.IndexByte"] = indexByte
	in["internal/bytealg.IndexByteString"] = indexByte
	in["internal/stringslite.IndexByte"] = indexByte
	// rune count: bytes are ASCII (one rune each); an opaque chunk has a symbolic rune count between half
	// its length and its length (it may contain two-byte UTF-8 letters)
	in["unicode/utf8.RuneCountInString"] = func(ex *Exec, fr *Frame, a []Value) Value { return ex.runeCount(a[0].(*StrV)) }
	in["strings.Replace"] = func(ex *Exec, fr *Frame, a []Value) Value {
		return ex.cstr(strings.Replace(ex.concStr(a[0], "Replace"), ex.concStr(a[1], "Replace"), ex.concStr(a[2], "Replace"), int(ex.concInt(a[3], "Replace n"))))
	}
	in["strings.Repeat"] = func(ex *Exec, fr *Frame, a []Value) Value {
		return ex.cstr(strings.Repeat(ex.concStr(a[0], "Repeat"), int(ex.concInt(a[1], "Repeat n"))))
	}
	in["strings.TrimSpace"] = func(ex *Exec, fr *Frame, a []Value) Value {
		return ex.cstr(strings.TrimSpace(ex.concStr(a[0], "TrimSpace")))
	}
	in["strconv.Itoa"] = func(ex *Exec, fr *Frame, a []Value) Value {
		return ex.cstr(strconv.Itoa(int(ex.concInt(a[0], "Itoa"))))
	}
	in["strconv.Quote"] = func(ex *Exec, fr *Frame, a []Value) Value {
		s := a[0].(*StrV)
		if s.isC {
			return ex.cstr(strconv.Quote(s.conc))
		}
		ex.requireQuoteSafe(s)
		return ex.strConcat(ex.strConcat(ex.cstr("\""), s), ex.cstr("\""))
	}
	in["strconv.Unquote"] = func(ex *Exec, fr *Frame, a []Value) Value { return ex.unquote(a[0].(*StrV)) }
	in["fmt.Sprintf"] = func(ex *Exec, fr *Frame, a []Value) Value { return ex.sprintf(a) }
	in["fmt.Sprint"] = func(ex *Exec, fr *Frame, a []Value) Value {
		op := ex.newOpaque(ex.varName("$sprint"))
		tf.VarRanged(op.name+".len", 64, 0, 1<<16-1)
		ex.assumeInternal(tf.And(tf.Cmp("bvsle", tf.Const(64, 0), op.len), tf.Cmp("bvslt", op.len, tf.Const(64, 1<<16))), "opaque Sprint result shorter than 65536")
		return ex.mkStr([]seg{{op: op}})
	}
	in["fmt.Errorf"] = func(ex *Exec, fr *Frame, a []Value) Value {
		// %w wrapping: build a verifWrapError via the harness rt when present; else errors.New(opaque)
		f := ex.concStr(a[0], "Errorf format")
		vals := ex.sliceElems(a[1])
		var wrapped Value
		if i := strings.Index(f, "%w"); i >= 0 {
			k := strings.Count(f[:i], "%")
			if k < len(vals) {
				wrapped = vals[k]
			}
		}
		msg := ex.sprintf([]Value{ex.cstr(strings.Replace(f, "%w", "%v", -1)), a[1]}).(*StrV)
		if wrapped != nil {
			return ex.makeWrapError(msg, wrapped.(IfaceV))
		}
		return errorIface(ex, msg)
	}
	in["fmt.Fprint"] = func(ex *Exec, fr *Frame, a []Value) Value { return TupleV{tf.Const(64, 0), IfaceV{}} }
	in["fmt.Fprintf"] = in["fmt.Fprint"]
	in["fmt.Fprintln"] = in["fmt.Fprint"]
	in["fmt.Println"] = in["fmt.Fprint"]
	in["fmt.Printf"] = in["fmt.Fprint"]
	in["fmt.Print"] = in["fmt.Fprint"]

	// sync: no-ops that emit events
	for _, n := range []string{"(*sync.Mutex).Lock", "(*sync.Mutex).Unlock", "(*sync.RWMutex).Lock", "(*sync.RWMutex).Unlock", "(*sync.RWMutex).RLock", "(*sync.RWMutex).RUnlock"} {
		name := n
		in[name] = func(ex *Exec, fr *Frame, a []Value) Value {
			if ex.eventHook != nil {
				ex.eventHook(name, a[0].(PtrV))
			}
			return nil
		}
	}
	in["(*sync.Once).Do"] = func(ex *Exec, fr *Frame, a []Value) Value {
		p := a[0].(PtrV)
		key := fmt.Sprintf("once%d%v", p.obj.id, p.path)
		if ex.onceDone[key] {
			return nil
		}
		ex.onceDone[key] = true
		return ex.call(fr, a[1], nil, nil)
	}
	// sync/atomic function forms over the engine heap (single-threaded execution: plain load/store)
	in["sync/atomic.StorePointer"] = func(ex *Exec, fr *Frame, a []Value) Value { ex.store(a[0].(PtrV), a[1]); return nil }
	in["sync/atomic.LoadPointer"] = func(ex *Exec, fr *Frame, a []Value) Value { return ex.load(a[0].(PtrV)) }
	in["sync/atomic.CompareAndSwapPointer"] = func(ex *Exec, fr *Frame, a []Value) Value {
		cur := ex.load(a[0].(PtrV)).(PtrV)
		if ptrEq(cur, a[1].(PtrV)) {
			ex.store(a[0].(PtrV), a[2])
			return tf.Bool(true)
		}
		return tf.Bool(false)
	}
	for _, n := range []string{"Int32", "Int64", "Uint32", "Uint64"} {
		in["sync/atomic.Load"+n] = func(ex *Exec, fr *Frame, a []Value) Value { return ex.load(a[0].(PtrV)) }
		in["sync/atomic.Store"+n] = func(ex *Exec, fr *Frame, a []Value) Value { ex.store(a[0].(PtrV), a[1]); return nil }
		in["sync/atomic.Add"+n] = func(ex *Exec, fr *Frame, a []Value) Value {
			v := tf.BV("bvadd", ex.load(a[0].(PtrV)).(*Term), a[1].(*Term))
			ex.store(a[0].(PtrV), v)
			return v
		}
	}
	// go/format.Node (printer contract PC): an uninterpreted function of the restored ast. It writes the
	// tag "AST<k>;" where k counts the format.Node calls of this path, through the real io.Writer, and
	// returns a nil error (or, when the harness asked for it with vfFormatFailAt(k), an error).
	in["go/format.Node"] = func(ex *Exec, fr *Frame, a []Value) Value {
		k := ex.formatCalls
		ex.formatCalls++
		if ex.formatFailAt == k {
			return errorIface(ex, ex.cstr("format: injected failure"))
		}
		w := a[0].(IfaceV)
		data := ex.cstr(fmt.Sprintf("AST%d;", k))
		bs := ex.convert(types.Typ[types.String], types.NewSlice(types.Typ[types.Uint8]), data)
		var wm *ssaFunction
		ms := ex.prog.MethodSets.MethodSet(w.t)
		for i := 0; i < ms.Len(); i++ {
			if ms.At(i).Obj().Name() == "Write" {
				wm = ex.prog.MethodValue(ms.At(i))
			}
		}
		if wm == nil {
			ex.unsupported("format.Node: writer without Write method")
		}
		ex.call(fr, &FuncV{fn: wm}, []Value{w.v, bs}, nil)
		return IfaceV{}
	}
	// go/printer used directly (not through go/format) is a different uninterpreted function: it writes
	// the tag "PRN<k>;" - contract PC is about format.Node (gofmt normalisation: import sorting, literal
	// normalisation), which a bare printer.Config does not perform
	in["(*go/printer.Config).Fprint"] = func(ex *Exec, fr *Frame, a []Value) Value {
		k := ex.formatCalls
		ex.formatCalls++
		w := a[1].(IfaceV)
		data := ex.cstr(fmt.Sprintf("PRN%d;", k))
		bs := ex.convert(types.Typ[types.String], types.NewSlice(types.Typ[types.Uint8]), data)
		wm := ex.methodByName(w.t, "Write")
		if wm == nil {
			ex.unsupported("printer.Fprint: writer without Write method")
		}
		ex.call(fr, &FuncV{fn: wm}, []Value{w.v, bs}, nil)
		return IfaceV{}
	}
	in["go/printer.Fprint"] = func(ex *Exec, fr *Frame, a []Value) Value {
		return ex.intr["(*go/printer.Config).Fprint"](ex, fr, append([]Value{nil}, a...))
	}
	in["vf:vfPrintOf"] = func(ex *Exec, fr *Frame, a []Value) Value {
		return ex.cstr(fmt.Sprintf("AST%d;", ex.concInt(a[0], "vfPrintOf k")))
	}
	in["vf:vfFormatFailAt"] = func(ex *Exec, fr *Frame, a []Value) Value {
		ex.formatFailAt = int(ex.concInt(a[0], "vfFormatFailAt"))
		return nil
	}
	in["sort.Slice"] = func(ex *Exec, fr *Frame, a []Value) Value { ex.sortSlice(fr, a[0], a[1]); return nil }
	in["sort.SliceStable"] = in["sort.Slice"]
	in["sort.Strings"] = func(ex *Exec, fr *Frame, a []Value) Value {
		s := a[0].(SliceV)
		ex.insertionSort(s, func(x, y Value) *Term { return ex.strCmp(lssTok, x.(*StrV), y.(*StrV)) })
		return nil
	}
	in["errors.Is"] = func(ex *Exec, fr *Frame, a []Value) Value { return ex.errorsIs(a[0].(IfaceV), a[1].(IfaceV)) }
	in["errors.Unwrap"] = func(ex *Exec, fr *Frame, a []Value) Value { return ex.errorsUnwrap(a[0].(IfaceV)) }

	ex.initReflect()
	ex.initConcreteFuncs()
	ex.initHarnessAPI()
}

func (ex *Exec) sortSlice(fr *Frame, sv Value, less Value) {
	iv := sv.(IfaceV)
	s := iv.v.(SliceV)
	// the less closure reads the slice by index, so we must sort in place with swaps: insertion sort
	arr := s.arr.v.(*ArrayV)
	for i := 1; i < s.len; i++ {
		for j := i; j > 0; j-- {
			r := ex.call(fr, less, []Value{ex.tf.Const(64, uint64(j)), ex.tf.Const(64, uint64(j-1))}, nil).(*Term)
			if !ex.branch(r) {
				break
			}
			arr.elems[s.off+j], arr.elems[s.off+j-1] = arr.elems[s.off+j-1], arr.elems[s.off+j]
		}
	}
}

func (ex *Exec) insertionSort(s SliceV, less func(a, b Value) *Term) {
	if s.len < 2 {
		return
	}
	arr := s.arr.v.(*ArrayV)
	for i := 1; i < s.len; i++ {
		for j := i; j > 0; j-- {
			if !ex.branch(less(arr.elems[s.off+j], arr.elems[s.off+j-1])) {
				break
			}
			arr.elems[s.off+j], arr.elems[s.off+j-1] = arr.elems[s.off+j-1], arr.elems[s.off+j]
		}
	}
}
