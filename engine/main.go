package main

import (
	"crypto/sha256"
	"encoding/json"
	"flag"
	"fmt"
	"os"
	"os/exec"
	"path/filepath"
	"regexp"
	"sort"
	"strings"
	"sync"
	"time"

	"golang.org/x/tools/go/packages"
	"golang.org/x/tools/go/ssa"
	"golang.org/x/tools/go/ssa/ssautil"
)

type Options struct {
	Repo       string
	HarnessDir string
	Root       string
	Pkgs       []string // package dirs relative to repo: ".", "decorator", ...
	Run        *regexp.Regexp
	Property   string
	Tier       string
	Evidence   string
	WorkDir    string
	Workers    int
	Cfg        RunConfig
	CrossCheck bool
	KnownFile  string
	NoNative   bool
	NativeRace bool
	ExtraInit  string
	Verbose    bool
	ReplayOnly string
	Level      string
}

var contractFailures []string

var pkgName = map[string]string{".": "dst", "decorator": "decorator", "dstutil": "dstutil",
	"decorator/resolver/goast": "goast", "decorator/resolver/gotypes": "gotypes",
	"decorator/resolver/guess": "guess", "decorator/resolver/simple": "simple"}

// buildOverlay creates the overlay map (virtual path in repo -> real file) for harness + rt files, and
// for native runs additionally the registry and the test driver.
func buildOverlay(o *Options, harnessNames map[string][]string) (map[string]string, error) {
	ov := map[string]string{}
	rt, err := os.ReadFile(filepath.Join(o.HarnessDir, "rt", "rt.go"))
	if err != nil {
		return nil, err
	}
	rtx, _ := os.ReadFile(filepath.Join(o.HarnessDir, "rt", "rtx.go"))
	for _, p := range o.Pkgs {
		name := pkgName[p]
		if name == "" {
			return nil, fmt.Errorf("unknown package dir %q", p)
		}
		hd := filepath.Join(o.HarnessDir, strings.Replace(p, ".", "root", 1))
		if p != "." {
			hd = filepath.Join(o.HarnessDir, p)
		}
		files, _ := filepath.Glob(filepath.Join(hd, "*.go"))
		for _, f := range files {
			ov[filepath.Join(o.Repo, p, "zz_verif_"+filepath.Base(f))] = f
		}
		wd := filepath.Join(o.WorkDir, strings.Replace(p, "/", "_", -1))
		os.MkdirAll(wd, 0o755)
		rtf := filepath.Join(wd, "rt.go")
		os.WriteFile(rtf, []byte(strings.Replace(string(rt), "package PKGNAME", "package "+name, 1)), 0o644)
		ov[filepath.Join(o.Repo, p, "zz_verif_rt.go")] = rtf
		if len(rtx) > 0 {
			rtxf := filepath.Join(wd, "rtx.go")
			os.WriteFile(rtxf, []byte(strings.Replace(string(rtx), "package PKGNAME", "package "+name, 1)), 0o644)
			ov[filepath.Join(o.Repo, p, "zz_verif_rtx.go")] = rtxf
		}
		// generated generic-instance constructors + per-type entry points (when the package's harness uses vfGen)
		if bases := perTypeBases(files); len(bases) > 0 || usesGen(files) {
			gf := filepath.Join(wd, "gen_nodes.go")
			entries, err := generateNodes(o.Repo, name, bases, gf)
			if err != nil {
				return nil, err
			}
			ov[filepath.Join(o.Repo, p, "zz_verif_gen_nodes.go")] = gf
			harnessNames[p] = append(harnessNames[p], entries...)
			sort.Strings(harnessNames[p])
		}
		// registry (always present so that rt.go compiles)
		var sb strings.Builder
		sb.WriteString("package " + name + "\n\nvar vfHarnesses = map[string]func(){\n")
		for _, h := range harnessNames[p] {
			fmt.Fprintf(&sb, "\t%q: %s,\n", h, h)
		}
		sb.WriteString("}\n")
		regf := filepath.Join(wd, "registry.go")
		os.WriteFile(regf, []byte(sb.String()), 0o644)
		ov[filepath.Join(o.Repo, p, "zz_verif_registry.go")] = regf
		tf := filepath.Join(wd, "replay_test.go")
		testSrc := "package " + name + "\n\nimport \"testing\"\n\nfunc TestVerifReplay(t *testing.T) { vfRunReplays() }\n"
		if extra, err := os.ReadFile(filepath.Join(hd, "contracts_test.go.txt")); err == nil {
			testSrc = "package " + name + "\n\nimport (\n\t\"fmt\"\n\t\"go/ast\"\n\t\"go/parser\"\n\t\"go/token\"\n\t\"testing\"\n)\n\nvar _ = ast.NewIdent\n\nfunc TestVerifReplay(t *testing.T) { vfRunReplays() }\n" + string(extra)
		}
		os.WriteFile(tf, []byte(testSrc), 0o644)
		ov[filepath.Join(o.Repo, p, "zz_verif_replay_test.go")] = tf
	}
	return ov, nil
}

func perTypeBases(files []string) []string {
	re := regexp.MustCompile(`(?m)^func vfPerType_([A-Za-z0-9]+)\(typ string\)`)
	var out []string
	for _, f := range files {
		b, _ := os.ReadFile(f)
		for _, m := range re.FindAllStringSubmatch(string(b), -1) {
			out = append(out, m[1])
		}
	}
	sort.Strings(out)
	return out
}

func usesGen(files []string) bool {
	for _, f := range files {
		b, _ := os.ReadFile(f)
		if strings.Contains(string(b), "vfGen{") {
			return true
		}
	}
	return false
}

func load(o *Options, ov map[string]string) (*ssa.Program, []*ssa.Package, map[string]*ssa.Package, error) {
	overlay := map[string][]byte{}
	for v, r := range ov {
		if strings.HasSuffix(v, "_test.go") {
			continue
		}
		b, err := os.ReadFile(r)
		if err != nil {
			return nil, nil, nil, err
		}
		overlay[v] = b
	}
	cfg := &packages.Config{Mode: packages.LoadAllSyntax, Dir: o.Repo, Overlay: overlay,
		Env: append(os.Environ(), "GOFLAGS=-mod=mod", "GOPROXY=off", "GOSUMDB=off", "GOTOOLCHAIN=local")}
	var pats []string
	for _, p := range o.Pkgs {
		if p == "." {
			pats = append(pats, ".")
		} else {
			pats = append(pats, "./"+p)
		}
	}
	pkgs, err := packages.Load(cfg, pats...)
	if err != nil {
		return nil, nil, nil, err
	}
	nerr := 0
	packages.Visit(pkgs, nil, func(p *packages.Package) {
		for _, e := range p.Errors {
			fmt.Fprintln(os.Stderr, "load error:", e)
			nerr++
		}
	})
	if nerr > 0 {
		return nil, nil, nil, fmt.Errorf("%d package load errors", nerr)
	}
	prog, spkgs := ssautil.AllPackages(pkgs, ssa.InstantiateGenerics)
	prog.Build()
	byDir := map[string]*ssa.Package{}
	for i, p := range pkgs {
		rel, _ := filepath.Rel(o.Repo, filepath.Dir(p.GoFiles[0]))
		byDir[rel] = spkgs[i]
	}
	return prog, spkgs, byDir, nil
}

// scanHarnessNames finds `func VerifXxx()` in the harness sources of a package dir (text scan; the
// registry must exist before the packages can be type-checked).
func scanHarnessNames(o *Options) map[string][]string {
	out := map[string][]string{}
	re := regexp.MustCompile(`(?m)^func (Verif[A-Za-z0-9_]*)\(\)`)
	for _, p := range o.Pkgs {
		hd := filepath.Join(o.HarnessDir, p)
		if p == "." {
			hd = filepath.Join(o.HarnessDir, "root")
		}
		files, _ := filepath.Glob(filepath.Join(hd, "*.go"))
		for _, f := range files {
			b, _ := os.ReadFile(f)
			for _, m := range re.FindAllStringSubmatch(string(b), -1) {
				out[p] = append(out[p], m[1])
			}
		}
		sort.Strings(out[p])
	}
	return out
}

func treeHash(repo string) string {
	h := sha256.New()
	filepath.Walk(repo, func(p string, info os.FileInfo, err error) error {
		if err != nil {
			return nil
		}
		if info.IsDir() && (info.Name() == ".git" || info.Name() == "testdata") {
			return filepath.SkipDir
		}
		if strings.HasSuffix(p, ".go") && !strings.HasSuffix(p, "_test.go") {
			b, _ := os.ReadFile(p)
			h.Write([]byte(p))
			h.Write(b)
		}
		return nil
	})
	return fmt.Sprintf("%x", h.Sum(nil))[:12]
}

// nativeRun executes replay files natively: go test -overlay in the repo package.
func nativeRun(o *Options, ov map[string]string, pkgDir string, replayDir string, race bool) (map[string]string, string, error) {
	// only the overlay files of the package under test: harness files of other packages may import it
	// (e.g. decorator's harness imports goast), which would be an import cycle for that package's tests
	one := map[string]string{}
	pdir := filepath.Join(o.Repo, pkgDir)
	for v, r := range ov {
		if filepath.Dir(v) == filepath.Clean(pdir) {
			one[v] = r
		}
	}
	ovf := filepath.Join(o.WorkDir, "overlay_"+strings.Replace(pkgDir, "/", "_", -1)+".json")
	b, _ := json.Marshal(map[string]interface{}{"Replace": one})
	os.WriteFile(ovf, b, 0o644)
	args := []string{"test", "-vet=off", "-count=1", "-overlay", ovf, "-run", "^TestVerif(Replay|Contracts)$", "-v", "-timeout", "20m"}
	if race {
		args = append(args, "-race")
	}
	pat := "./" + pkgDir
	if pkgDir == "." {
		pat = "."
	}
	args = append(args, pat)
	cmd := exec.Command("go", args...)
	cmd.Dir = o.Repo
	cmd.Env = append(os.Environ(), "GOFLAGS=-mod=mod", "GOPROXY=off", "GOSUMDB=off", "GOTOOLCHAIN=local", "VERIF_REPLAY="+replayDir)
	out, err := cmd.CombinedOutput()
	res := map[string]string{}
	for _, l := range strings.Split(string(out), "\n") {
		if strings.HasPrefix(l, "VFCONTRACT FAILED") {
			contractFailures = append(contractFailures, l)
		}
		if strings.HasPrefix(l, "VFRESULT ") {
			f := strings.SplitN(l[len("VFRESULT "):], " ", 2)
			if len(f) == 2 {
				res[filepath.Base(f[0])] = f[1]
			}
		}
	}
	if len(res) == 0 && err != nil {
		return res, string(out), err
	}
	return res, string(out), nil
}

func main() {
	o := &Options{}
	var pkgs, run, cross string
	var timeoutS int
	flag.StringVar(&o.Repo, "repo", "/repo", "repository root")
	flag.StringVar(&o.HarnessDir, "harness", "", "harness dir (default <root>/harness)")
	flag.StringVar(&o.Root, "root", "/verif", "verification root directory")
	flag.StringVar(&pkgs, "pkgs", "decorator", "comma separated package dirs")
	flag.StringVar(&run, "run", "^Verif", "regexp of harness functions")
	flag.StringVar(&o.Property, "property", "", "property id")
	flag.StringVar(&o.Tier, "tier", "quick", "quick|thorough")
	flag.StringVar(&o.Evidence, "evidence", "", "evidence file to write")
	flag.StringVar(&o.WorkDir, "work", "", "work dir")
	flag.IntVar(&o.Workers, "workers", 16, "parallel harnesses")
	flag.IntVar(&o.Cfg.MaxSteps, "steps", 2000000, "max SSA instructions per path")
	flag.IntVar(&o.Cfg.MaxDepth, "depth", 200, "max call depth")
	flag.IntVar(&o.Cfg.MaxPaths, "paths", 20000, "max paths per harness")
	flag.IntVar(&o.Cfg.Witnesses, "witnesses", 3, "completed paths per harness replayed natively")
	flag.IntVar(&o.Cfg.TimeoutMs, "solver-timeout-ms", 30000, "solver timeout per query")
	flag.StringVar(&o.Cfg.SolverName, "solver", "z3", "z3|z3-new|cvc5")
	flag.IntVar(&timeoutS, "timeout", 0, "overall time budget in seconds (0 = none)")
	flag.IntVar(&o.Cfg.PathWorkers, "path-workers", 0, "parallel path workers per harness (0 = auto)")
	flag.StringVar(&o.ExtraInit, "init", "", "comma separated extra packages whose init runs at the start of every path")
	flag.StringVar(&cross, "cross", "", "comma separated extra back ends that re-check every discharged obligation (bv = z3 bit-vector encoding, z3-new, cvc5)")
	flag.BoolVar(&o.NativeRace, "native-race", false, "run native replays one by one under the Go race detector")
	flag.BoolVar(&o.NoNative, "no-native", false, "skip native replays (debugging only)")
	flag.BoolVar(&o.Verbose, "v", false, "verbose")
	flag.StringVar(&o.ReplayOnly, "replay", "", "replay one recorded counterexample natively and exit")
	flag.StringVar(&o.KnownFile, "known", "", "known findings file (default <root>/known_findings.json)")
	flag.Parse()
	for _, c := range strings.Split(cross, ",") {
		switch c {
		case "bv":
			o.Cfg.Cross = append(o.Cfg.Cross, "z3")
		case "z3-new", "cvc5":
			o.Cfg.Cross = append(o.Cfg.Cross, c)
		}
	}
	verboseCrash = o.Verbose
	o.Pkgs = strings.Split(pkgs, ",")
	o.Run = regexp.MustCompile(run)
	if o.HarnessDir == "" {
		o.HarnessDir = filepath.Join(o.Root, "harness")
	}
	if o.KnownFile == "" {
		o.KnownFile = filepath.Join(o.Root, "known_findings.json")
	}
	if o.WorkDir == "" {
		o.WorkDir = filepath.Join(o.Root, ".work", fmt.Sprintf("%s-%d", o.Property, os.Getpid()))
	}
	os.MkdirAll(o.WorkDir, 0o755)
	if os.Getenv("GOSYM_KEEP") == "" {
		defer os.RemoveAll(o.WorkDir)
	}
	if timeoutS > 0 {
		o.Cfg.Deadline = time.Now().Add(time.Duration(timeoutS) * time.Second)
	}
	if o.Tier == "thorough" {
		o.Cfg.Tier = 1
	}
	code := runCheck(o)
	if os.Getenv("GOSYM_KEEP") == "" {
		os.RemoveAll(o.WorkDir)
	}
	os.Exit(code)
}

func runCheck(o *Options) int {
	start := time.Now()
	names := scanHarnessNames(o)
	ov, err := buildOverlay(o, names)
	if err != nil {
		fmt.Println("ERROR:", err)
		return 2
	}
	prog, _, byDir, err := load(o, ov)
	if err != nil {
		fmt.Println("ERROR: cannot load /repo with harness overlay:", err)
		return 2
	}
	if o.ReplayOnly != "" {
		return replayOnly(o, ov, names)
	}
	fmt.Printf("[gosym] loaded %s tree=%s pkgs=%v in %.1fs\n", o.Repo, treeHash(o.Repo), o.Pkgs, time.Since(start).Seconds())

	// packages whose init is executed at the start of every path
	var initPkgs []*ssa.Package
	for _, p := range prog.AllPackages() {
		switch p.Pkg.Path() {
		case "go/token", "go/ast":
			initPkgs = append(initPkgs, p)
		}
		for _, x := range strings.Split(o.ExtraInit, ",") {
			if x != "" && p.Pkg.Path() == x {
				initPkgs = append(initPkgs, p)
			}
		}
		if strings.HasPrefix(p.Pkg.Path(), "github.com/dave/dst") && !strings.Contains(p.Pkg.Path(), "gendst") {
			initPkgs = append(initPkgs, p)
		}
	}
	sort.Slice(initPkgs, func(i, j int) bool { return initOrder(initPkgs[i]) < initOrder(initPkgs[j]) })

	type job struct {
		dir string
		fn  *ssa.Function
	}
	var jobs []job
	for _, d := range o.Pkgs {
		sp := byDir[d]
		if sp == nil {
			fmt.Println("ERROR: package not loaded:", d)
			return 2
		}
		for _, h := range names[d] {
			if !o.Run.MatchString(h) {
				continue
			}
			fn := sp.Func(h)
			if fn == nil {
				fmt.Println("ERROR: harness not found in SSA:", h)
				return 2
			}
			jobs = append(jobs, job{d, fn})
		}
	}
	if len(jobs) == 0 {
		fmt.Println("ERROR: no harness matches")
		return 2
	}
	// start the hand-written (usually heavier) harnesses before the generated per-node-type ones
	sort.SliceStable(jobs, func(i, j int) bool {
		return !strings.Contains(jobs[i].fn.Name(), "_") && strings.Contains(jobs[j].fn.Name(), "_")
	})
	if o.Cfg.PathWorkers == 0 {
		o.Cfg.PathWorkers = 1
		if len(jobs) < o.Workers {
			o.Cfg.PathWorkers = (o.Workers + len(jobs) - 1) / len(jobs)
		}
	}
	results := make([]*HarnessStats, len(jobs))
	var wg sync.WaitGroup
	sem := make(chan struct{}, o.Workers)
	var mu sync.Mutex
	for i, j := range jobs {
		wg.Add(1)
		go func(i int, j job) {
			defer wg.Done()
			sem <- struct{}{}
			defer func() { <-sem }()
			defer func() {
				if r := recover(); r != nil {
					st := &HarnessStats{Name: j.fn.Name()}
					st.Inconclusive = append(st.Inconclusive, fmt.Sprintf("engine crash: %v", r))
					results[i] = st
					if o.Verbose {
						panic(r)
					}
				}
			}()
			st := RunHarness(prog, j.fn, initPkgs, o.Cfg)
			results[i] = st
			mu.Lock()
			fmt.Println(summarize(st))
			mu.Unlock()
		}(i, j)
	}
	wg.Wait()
	dirOf := map[string]string{}
	for _, j := range jobs {
		dirOf[j.fn.Name()] = j.dir
	}
	return finish(o, ov, results, dirOf, start)
}

// replayOnly re-runs one replay file natively against /repo's current tree.
func replayOnly(o *Options, ov map[string]string, names map[string][]string) int {
	b, err := os.ReadFile(o.ReplayOnly)
	if err != nil {
		fmt.Println("ERROR:", err)
		return 2
	}
	var rp Replay
	if err := json.Unmarshal(b, &rp); err != nil {
		fmt.Println("ERROR:", err)
		return 2
	}
	dir := ""
	for d, hs := range names {
		for _, h := range hs {
			if h == rp.Harness {
				dir = d
			}
		}
	}
	if dir == "" {
		fmt.Println("ERROR: harness not found:", rp.Harness)
		return 2
	}
	rdir := filepath.Join(o.WorkDir, "replay1")
	os.MkdirAll(rdir, 0o755)
	os.WriteFile(filepath.Join(rdir, "r.json"), b, 0o644)
	res, out, err := nativeRun(o, ov, dir, rdir, false)
	if err != nil {
		fmt.Println("NATIVE RUN FAILED:", err)
		fmt.Println(tail(out, 30))
		return 2
	}
	got := res["r.json"]
	fmt.Printf("replay of %s (%s): %s\n", o.ReplayOnly, rp.Harness, got)
	if got != "ok" {
		fmt.Printf("VIOLATION property=%s replay=%s\n", o.Property, o.ReplayOnly)
		return 1
	}
	return 0
}

func initOrder(p *ssa.Package) int {
	switch p.Pkg.Path() {
	case "errors":
		return 0
	case "go/token":
		return 1
	case "go/ast":
		return 2
	case "go/constant":
		return 2
	case "go/types":
		return 3
	case "github.com/dave/dst":
		return 3
	}
	if strings.Contains(p.Pkg.Path(), "resolver") {
		return 4
	}
	if strings.HasSuffix(p.Pkg.Path(), "dstutil") {
		return 5
	}
	return 6
}
