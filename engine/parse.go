package main

import (
	"fmt"
	"go/ast"
	"go/parser"
	"go/token"
	"go/types"
	"reflect"
	"unsafe"
)

// vfParseInto(fset, src): the real go/parser (the engine is built with the toolchain /repo is built
// with) parses the concrete source natively; the resulting *ast.File (including comments, objects,
// scopes) is converted into engine heap values, every valid position shifted to the symbolic base of
// fset, and the file is registered in fset by executing the real FileSet.AddFile / File.SetLines on the
// engine heap. This is how parser.ParseFile(fset, "", src, ParseComments) looks to dst. Sources are
// concrete; the FileSet base stays symbolic.

type convCtx struct {
	ex    *Exec
	memo  map[uintptr]PtrV
	shift *Term // added to every valid token.Pos
}

func (ex *Exec) namedType(pkgPath, name string) types.Type {
	for _, p := range ex.prog.AllPackages() {
		if p.Pkg.Path() == pkgPath {
			if m := p.Members[name]; m != nil {
				return m.Type()
			}
		}
	}
	return nil
}

// dynType maps the concrete reflect type held in an interface to go/types.
func (c *convCtx) dynType(rt reflect.Type) types.Type {
	switch rt.Kind() {
	case reflect.Ptr:
		if e := c.dynType(rt.Elem()); e != nil {
			return types.NewPointer(e)
		}
	case reflect.Int:
		if rt.PkgPath() == "" {
			return types.Typ[types.Int]
		}
	case reflect.String:
		if rt.PkgPath() == "" {
			return types.Typ[types.String]
		}
	}
	if rt.PkgPath() != "" && rt.Name() != "" {
		return c.ex.namedType(rt.PkgPath(), rt.Name())
	}
	return nil
}

func (c *convCtx) conv(rv reflect.Value, t types.Type) Value {
	ex := c.ex
	tf := ex.tf
	if named, ok := t.(*types.Named); ok && named.Obj().Pkg() != nil && named.Obj().Pkg().Path() == "go/token" && named.Obj().Name() == "Pos" {
		p := rv.Int()
		if p == 0 {
			return tf.Const(64, 0)
		}
		return tf.BV("bvadd", tf.Const(64, uint64(p)), c.shift)
	}
	switch u := t.Underlying().(type) {
	case *types.Basic:
		switch {
		case u.Info()&types.IsBoolean != 0:
			return tf.Bool(rv.Bool())
		case u.Info()&types.IsString != 0:
			return ex.cstr(rv.String())
		case u.Info()&types.IsInteger != 0:
			w, signed, _ := intWidth(u)
			if signed {
				return tf.Const(w, uint64(rv.Int()))
			}
			return tf.Const(w, rv.Uint())
		}
	case *types.Pointer:
		if rv.IsNil() {
			return PtrV{}
		}
		addr := rv.Pointer()
		if p, ok := c.memo[addr]; ok {
			return p
		}
		o := ex.newObj(nil, u.Elem(), "parsed")
		p := PtrV{obj: o}
		c.memo[addr] = p
		o.v = c.conv(rv.Elem(), u.Elem())
		return p
	case *types.Struct:
		s := &StructV{fields: make([]Value, u.NumFields())}
		for i := 0; i < u.NumFields(); i++ {
			f := rv.Field(i)
			if !f.CanInterface() {
				// unexported field: read through its address
				if f.CanAddr() {
					f = reflect.NewAt(f.Type(), unsafe.Pointer(f.UnsafeAddr())).Elem()
				} else {
					s.fields[i] = ex.zero(u.Field(i).Type())
					continue
				}
			}
			s.fields[i] = c.conv(f, u.Field(i).Type())
		}
		return s
	case *types.Slice:
		if rv.IsNil() {
			return SliceV{}
		}
		n := rv.Len()
		sl := ex.makeSlice(u.Elem(), n, n)
		for i := 0; i < n; i++ {
			sl.arr.v.(*ArrayV).elems[i] = c.conv(rv.Index(i), u.Elem())
		}
		return sl
	case *types.Map:
		if rv.IsNil() {
			return (*MapV)(nil)
		}
		ex.mapCount++
		m := &MapV{id: ex.mapCount, typ: u}
		keys := rv.MapKeys()
		// deterministic order
		for i := 0; i < len(keys); i++ {
			for j := i + 1; j < len(keys); j++ {
				if fmt.Sprint(keys[j].Interface()) < fmt.Sprint(keys[i].Interface()) {
					keys[i], keys[j] = keys[j], keys[i]
				}
			}
		}
		for _, k := range keys {
			m.entries = append(m.entries, &mapEntry{key: c.conv(k, u.Key()), val: c.conv(rv.MapIndex(k), u.Elem())})
		}
		return m
	case *types.Interface:
		if rv.IsNil() {
			return IfaceV{}
		}
		e := rv.Elem()
		dt := c.dynType(e.Type())
		if dt == nil {
			ex.unsupported("parsed value of unknown dynamic type " + e.Type().String())
		}
		return IfaceV{t: dt, v: c.conv(e, dt)}
	}
	ex.unsupported("conversion of parsed value of type " + t.String())
	return nil
}

func init() {
	extraAPI = append(extraAPI, func(ex *Exec) {
		tf := ex.tf
		// vfParseInto(fset *token.FileSet, src string) (*ast.File, bool)  -- bool: parser reported errors
		ex.intr["vf:vfParseInto"] = func(ex *Exec, fr *Frame, a []Value) Value {
			fsetP := a[0].(PtrV)
			src := ex.concStr(a[1], "vfParseInto source")
			nfset := token.NewFileSet()
			f, perr := parser.ParseFile(nfset, "", src, parser.ParseComments)
			hadErr := perr != nil
			if f == nil {
				return TupleV{PtrV{}, tf.Bool(hadErr)}
			}
			// base of the engine-side FileSet: the real (*FileSet).Base
			baseFn := ex.methodByName(types.NewPointer(ex.namedType("go/token", "FileSet")), "Base")
			base := ex.toInt(ex.callSSA(fr, baseFn, []Value{fsetP}, nil))
			shift := tf.BV("bvsub", base, tf.Const(64, 1))
			// register the file: real AddFile + SetLines on the engine heap
			addFn := ex.methodByName(types.NewPointer(ex.namedType("go/token", "FileSet")), "AddFile")
			tfile := ex.callSSA(fr, addFn, []Value{fsetP, ex.cstr(""), tf.Const(64, ^uint64(0)), tf.Const(64, uint64(len(src)))}, nil)
			var lines []int
			ntf := nfset.File(token.Pos(1))
			if ntf != nil {
				for i := 1; i <= ntf.LineCount(); i++ {
					lines = append(lines, ntf.Offset(ntf.LineStart(i)))
				}
			}
			ls := ex.makeSlice(types.Typ[types.Int], len(lines), len(lines))
			for i, l := range lines {
				ls.arr.v.(*ArrayV).elems[i] = tf.Const(64, uint64(l))
			}
			setFn := ex.methodByName(types.NewPointer(ex.namedType("go/token", "File")), "SetLines")
			ex.callSSA(fr, setFn, []Value{tfile, ls}, nil)
			ctx := &convCtx{ex: ex, memo: map[uintptr]PtrV{}, shift: shift}
			ft := types.NewPointer(ex.namedType("go/ast", "File"))
			v := ctx.conv(reflect.ValueOf(f), ft)
			return TupleV{v, tf.Bool(hadErr)}
		}
	})
	_ = ast.NewIdent
}
