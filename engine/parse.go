package main

import (
	"fmt"
	"go/ast"
	"go/parser"
	"go/token"
	"go/types"
	"reflect"
	"unsafe"
)

// vfParseInto(fset, src): the real go/parser (the engine is built with the toolchain /repo is built
// with) parses the concrete source natively; the resulting *ast.File (including comments, objects,
// scopes) is converted into engine heap values, every valid position shifted to the symbolic base of
// fset, and the file is registered in fset by executing the real FileSet.AddFile / File.SetLines on the
// engine heap. This is how parser.ParseFile(fset, "", src, ParseComments) looks to dst. Sources are
// concrete; the FileSet base stays symbolic.

type convCtx struct {
	ex    *Exec
	memo  map[uintptr]PtrV
	shift *Term // added to every valid token.Pos
}

func (ex *Exec) namedType(pkgPath, name string) types.Type {
	for _, p := range ex.prog.AllPackages() {
		if p.Pkg.Path() == pkgPath {
			if m := p.Members[name]; m != nil {
				return m.Type()
			}
		}
	}
	return nil
}

// dynType maps the concrete reflect type held in an interface to go/types.
func (c *convCtx) dynType(rt reflect.Type) types.Type {
	switch rt.Kind() {
	case reflect.Ptr:
		if e := c.dynType(rt.Elem()); e != nil {
			return types.NewPointer(e)
		}
	case reflect.Int:
		if rt.PkgPath() == "" {
			return types.Typ[types.Int]
		}
	case reflect.String:
		if rt.PkgPath() == "" {
			return types.Typ[types.String]
		}
	}
	if rt.PkgPath() != "" && rt.Name() != "" {
		return c.ex.namedType(rt.PkgPath(), rt.Name())
	}
	return nil
}

func (c *convCtx) conv(rv reflect.Value, t types.Type) Value {
	ex := c.ex
	tf := ex.tf
	if named, ok := t.(*types.Named); ok && named.Obj().Pkg() != nil && named.Obj().Pkg().Path() == "go/token" && named.Obj().Name() == "Pos" {
		p := rv.Int()
		if p == 0 {
			return tf.Const(64, 0)
		}
		return tf.BV("bvadd", tf.Const(64, uint64(p)), c.shift)
	}
	switch u := t.Underlying().(type) {
	case *types.Basic:
		switch {
		case u.Info()&types.IsBoolean != 0:
			return tf.Bool(rv.Bool())
		case u.Info()&types.IsString != 0:
			return ex.cstr(rv.String())
		case u.Info()&types.IsInteger != 0:
			w, signed, _ := intWidth(u)
			if signed {
				return tf.Const(w, uint64(rv.Int()))
			}
			return tf.Const(w, rv.Uint())
		}
	case *types.Pointer:
		if rv.IsNil() {
			return PtrV{}
		}
		addr := rv.Pointer()
		if p, ok := c.memo[addr]; ok {
			return p
		}
		o := ex.newObj(nil, u.Elem(), "parsed")
		p := PtrV{obj: o}
		c.memo[addr] = p
		o.v = c.conv(rv.Elem(), u.Elem())
		return p
	case *types.Struct:
		s := &StructV{fields: make([]Value, u.NumFields())}
		for i := 0; i < u.NumFields(); i++ {
			f := rv.Field(i)
			if !f.CanInterface() {
				// unexported field: read through its address
				if f.CanAddr() {
					f = reflect.NewAt(f.Type(), unsafe.Pointer(f.UnsafeAddr())).Elem()
				} else {
					s.fields[i] = ex.zero(u.Field(i).Type())
					continue
				}
			}
			s.fields[i] = c.conv(f, u.Field(i).Type())
		}
		return s
	case *types.Slice:
		if rv.IsNil() {
			return SliceV{}
		}
		n := rv.Len()
		sl := ex.makeSlice(u.Elem(), n, n)
		for i := 0; i < n; i++ {
			sl.arr.v.(*ArrayV).elems[i] = c.conv(rv.Index(i), u.Elem())
		}
		return sl
	case *types.Map:
		if rv.IsNil() {
			return (*MapV)(nil)
		}
		ex.mapCount++
		m := &MapV{id: ex.mapCount, typ: u}
		keys := rv.MapKeys()
		// deterministic order
		for i := 0; i < len(keys); i++ {
			for j := i + 1; j < len(keys); j++ {
				if fmt.Sprint(keys[j].Interface()) < fmt.Sprint(keys[i].Interface()) {
					keys[i], keys[j] = keys[j], keys[i]
				}
			}
		}
		for _, k := range keys {
			m.entries = append(m.entries, &mapEntry{key: c.conv(k, u.Key()), val: c.conv(rv.MapIndex(k), u.Elem())})
		}
		return m
	case *types.Interface:
		if rv.IsNil() {
			return IfaceV{}
		}
		e := rv.Elem()
		dt := c.dynType(e.Type())
		if dt == nil {
			ex.unsupported("parsed value of unknown dynamic type " + e.Type().String())
		}
		return IfaceV{t: dt, v: c.conv(e, dt)}
	}
	ex.unsupported("conversion of parsed value of type " + t.String())
	return nil
}

// parseInto parses src natively and installs the file (named filename) in the engine-side FileSet.
func (ex *Exec) parseInto(fr *Frame, fsetP PtrV, filename, src string) (Value, bool) {
	tf := ex.tf
	nfset := token.NewFileSet()
	f, perr := parser.ParseFile(nfset, filename, src, parser.ParseComments)
	hadErr := perr != nil
	if f == nil {
		return PtrV{}, hadErr
	}
	fsT := types.NewPointer(ex.namedType("go/token", "FileSet"))
	base := ex.toInt(ex.callSSA(fr, ex.methodByName(fsT, "Base"), []Value{fsetP}, nil))
	shift := tf.BV("bvsub", base, tf.Const(64, 1))
	tfile := ex.callSSA(fr, ex.methodByName(fsT, "AddFile"), []Value{fsetP, ex.cstr(filename), tf.Const(64, ^uint64(0)), tf.Const(64, uint64(len(src)))}, nil)
	var lines []int
	if ntf := nfset.File(token.Pos(1)); ntf != nil {
		for i := 1; i <= ntf.LineCount(); i++ {
			lines = append(lines, ntf.Offset(ntf.LineStart(i)))
		}
	}
	ls := ex.makeSlice(types.Typ[types.Int], len(lines), len(lines))
	for i, l := range lines {
		ls.arr.v.(*ArrayV).elems[i] = tf.Const(64, uint64(l))
	}
	ex.callSSA(fr, ex.methodByName(types.NewPointer(ex.namedType("go/token", "File")), "SetLines"), []Value{tfile, ls}, nil)
	// //line directives: the parser's alternative line infos (unexported), replayed through the real
	// File.AddLineColumnInfo so that FileSet.Position reports the adjusted lines dst's fragment() sees
	if ntf := nfset.File(token.Pos(1)); ntf != nil {
		iv := reflect.ValueOf(ntf).Elem().FieldByName("infos")
		if iv.IsValid() {
			add := ex.methodByName(types.NewPointer(ex.namedType("go/token", "File")), "AddLineColumnInfo")
			for i := 0; i < iv.Len(); i++ {
				e := iv.Index(i)
				get := func(name string) reflect.Value {
					f := e.FieldByName(name)
					return reflect.NewAt(f.Type(), unsafe.Pointer(f.UnsafeAddr())).Elem()
				}
				ex.callSSA(fr, add, []Value{tfile, tf.Const(64, uint64(get("Offset").Int())), ex.cstr(get("Filename").String()),
					tf.Const(64, uint64(get("Line").Int())), tf.Const(64, uint64(get("Column").Int()))}, nil)
			}
		}
	}
	ctx := &convCtx{ex: ex, memo: map[uintptr]PtrV{}, shift: shift}
	return ctx.conv(reflect.ValueOf(f), types.NewPointer(ex.namedType("go/ast", "File"))), hadErr
}

func (ex *Exec) parseError(msg string) Value { return errorIface(ex, ex.cstr(msg)) }

func init() {
	extraAPI = append(extraAPI, func(ex *Exec) {
		tf := ex.tf
		// vfParseInto(fset *token.FileSet, src string) (*ast.File, bool)  -- bool: parser reported errors
		ex.intr["vf:vfParseInto"] = func(ex *Exec, fr *Frame, a []Value) Value {
			v, bad := ex.parseInto(fr, a[0].(PtrV), "", ex.concStr(a[1], "vfParseInto source"))
			return TupleV{v, tf.Bool(bad)}
		}
		// go/parser.ParseFile(fset, filename, src, mode): src is a concrete string or []byte, or nil and the
		// file is read from the in-memory file system
		ex.intr["go/parser.ParseFile"] = func(ex *Exec, fr *Frame, a []Value) Value {
			filename := ex.concStr(a[1], "ParseFile filename")
			var src string
			iv := a[2].(IfaceV)
			switch {
			case iv.t == nil:
				f, ok := ex.fs[filename]
				if !ok {
					return TupleV{PtrV{}, ex.parseError("open " + filename + ": no such file or directory")}
				}
				src = ex.concStr(f.content, "file content")
			default:
				switch x := iv.v.(type) {
				case *StrV:
					src = ex.concStr(x, "ParseFile src")
				case SliceV:
					src = ex.concStr(ex.bytesToStr(x), "ParseFile src")
				default:
					ex.unsupported("parser.ParseFile with a reader source")
				}
			}
			v, bad := ex.parseInto(fr, a[0].(PtrV), filename, src)
			if bad {
				return TupleV{v, ex.parseError("syntax errors")}
			}
			return TupleV{v, IfaceV{}}
		}
		// go/parser.ParseDir(fset, dir, filter, mode): the .go files of dir in the in-memory file system
		ex.intr["go/parser.ParseDir"] = func(ex *Exec, fr *Frame, a []Value) Value {
			dir := ex.concStr(a[1], "ParseDir dir")
			var names []string
			for n := range ex.fs {
				if len(n) > len(dir)+1 && n[:len(dir)+1] == dir+"/" && len(n) > 3 && n[len(n)-3:] == ".go" {
					names = append(names, n)
				}
			}
			for i := range names {
				for j := i + 1; j < len(names); j++ {
					if names[j] < names[i] {
						names[i], names[j] = names[j], names[i]
					}
				}
			}
			mt := types.NewMap(types.Typ[types.String], types.NewPointer(ex.namedType("go/ast", "Package")))
			ex.mapCount++
			out := &MapV{id: ex.mapCount, typ: mt}
			pkgT := ex.namedType("go/ast", "Package")
			fmT := types.NewMap(types.Typ[types.String], types.NewPointer(ex.namedType("go/ast", "File")))
			var firstErr Value = IfaceV{}
			for _, n := range names {
				fv, bad := ex.parseInto(fr, a[0].(PtrV), n, ex.concStr(ex.fs[n].content, "file content"))
				if bad && firstErr.(IfaceV).t == nil {
					firstErr = ex.parseError("syntax errors in " + n)
				}
				fp := fv.(PtrV)
				if fp.obj == nil {
					continue
				}
				// package name of the file
				nameV, _, _ := ex.fieldByName(IfaceV{t: types.NewPointer(ex.namedType("go/ast", "File")), v: fp}, "Name")
				pname := ""
				if ip, ok := nameV.(PtrV); ok && ip.obj != nil {
					pname = ex.concStr(ex.loadRaw(ip).(*StructV).fields[1], "package name")
				}
				var pkgObj *Obj
				for _, e := range out.entries {
					if e.key.(*StrV).conc == pname {
						pkgObj = e.val.(PtrV).obj
					}
				}
				if pkgObj == nil {
					ex.mapCount++
					files := &MapV{id: ex.mapCount, typ: fmT}
					pv := ex.zero(pkgT).(*StructV)
					st := pkgT.Underlying().(*types.Struct)
					for i := 0; i < st.NumFields(); i++ {
						switch st.Field(i).Name() {
						case "Name":
							pv.fields[i] = ex.cstr(pname)
						case "Files":
							pv.fields[i] = files
						}
					}
					pkgObj = ex.newObj(pv, pkgT, "parsed package")
					out.entries = append(out.entries, &mapEntry{key: ex.cstr(pname), val: PtrV{obj: pkgObj}})
				}
				st := pkgT.Underlying().(*types.Struct)
				for i := 0; i < st.NumFields(); i++ {
					if st.Field(i).Name() == "Files" {
						fm := pkgObj.v.(*StructV).fields[i].(*MapV)
						fm.entries = append(fm.entries, &mapEntry{key: ex.cstr(n), val: fp})
					}
				}
			}
			return TupleV{out, firstErr}
		}
	})
	_ = ast.NewIdent
}
