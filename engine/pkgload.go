package main

import "go/types"

// Environment stub for golang.org/x/tools/go/packages.Load (process execution of `go list`, outside the
// engine): every pattern loads as one package that carries a "not found" error, which is what the go
// command reports for an import path that does not exist in the module graph. Harnesses use it for the
// failure side of Package.Save's default resolver (the file must not be rewritten, the error returned);
// loading of existing packages is not modelled.
func init() {
	extraAPI = append(extraAPI, func(ex *Exec) {
		ex.intr["golang.org/x/tools/go/packages.Load"] = func(ex *Exec, fr *Frame, a []Value) Value {
			pkgT := ex.namedType("golang.org/x/tools/go/packages", "Package")
			errT := ex.namedType("golang.org/x/tools/go/packages", "Error")
			if pkgT == nil || errT == nil {
				ex.unsupported("go/packages types not in the program")
			}
			pats := ex.sliceElems(a[1])
			out := ex.makeSlice(types.NewPointer(pkgT), len(pats), len(pats))
			for i, pv := range pats {
				pat := ex.concStr(pv, "packages.Load pattern")
				path := pat
				if len(pat) > 8 && pat[:8] == "pattern=" {
					path = pat[8:]
				}
				ev := ex.zero(errT).(*StructV)
				est := errT.Underlying().(*types.Struct)
				for k := 0; k < est.NumFields(); k++ {
					if est.Field(k).Name() == "Msg" {
						ev.fields[k] = ex.cstr("no required module provides package " + path)
					}
				}
				errs := ex.makeSlice(errT, 1, 1)
				errs.arr.v.(*ArrayV).elems[0] = ev
				sv := ex.zero(pkgT).(*StructV)
				st := pkgT.Underlying().(*types.Struct)
				for k := 0; k < st.NumFields(); k++ {
					switch st.Field(k).Name() {
					case "ID", "PkgPath":
						sv.fields[k] = ex.cstr(path)
					case "Errors":
						sv.fields[k] = errs
					}
				}
				out.arr.v.(*ArrayV).elems[i] = PtrV{obj: ex.newObj(sv, pkgT, "packages.Package")}
			}
			return TupleV{out, IfaceV{}}
		}
	})
}
