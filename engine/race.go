package main

import (
	"fmt"
	"strings"
)

// Race checking (C16). The harness runs two thread bodies with vfParallel; the engine executes them one
// after the other (both orders are forked) and records, from the real SSA, every access to memory that
// is reachable from the declared shared roots (and from package-level variables), plus mutex
// lock/unlock events. vfRaceFree then asks the solver for a schedule - integer clocks for all events
// subject to program order and mutual exclusion of critical sections - in which two conflicting
// accesses of different threads are unordered by happens-before (program order plus unlock->lock
// edges). sat = a data race under the Go memory model.

type raceEvent struct {
	thread int
	kind   byte // 'R','W','L','U'
	obj    string
	path   []int
	where  string
}

func (ex *Exec) markTraced(v Value) {
	switch x := v.(type) {
	case PtrV:
		if x.obj == nil || ex.traced[x.obj] {
			return
		}
		ex.traced[x.obj] = true
		ex.markTraced(x.obj.v)
	case *StructV:
		for _, f := range x.fields {
			ex.markTraced(f)
		}
	case *ArrayV:
		for _, f := range x.elems {
			ex.markTraced(f)
		}
	case SliceV:
		if x.arr == nil || ex.traced[x.arr] {
			return
		}
		ex.traced[x.arr] = true
		ex.markTraced(x.arr.v)
	case IfaceV:
		if x.t != nil {
			ex.markTraced(x.v)
		}
	case *MapV:
		if x == nil || ex.tracedMaps[x] {
			return
		}
		ex.tracedMaps[x] = true
		for _, e := range x.entries {
			ex.markTraced(e.key)
			ex.markTraced(e.val)
		}
	case *FuncV:
		if x != nil {
			for _, f := range x.free {
				ex.markTraced(f)
			}
		}
	}
}

func (ex *Exec) raceAccess(kind byte, p PtrV) {
	if ex.curThread == 0 || !ex.traced[p.obj] {
		return
	}
	where := ""
	if ex.curFrame != nil {
		where = ex.curFrame.fn.String()
	}
	ex.raceEvents = append(ex.raceEvents, raceEvent{ex.curThread, kind, fmt.Sprintf("o%d", p.obj.id), append([]int{}, p.path...), where})
}

func (ex *Exec) raceMap(kind byte, m *MapV) {
	if ex.curThread == 0 || m == nil || !ex.tracedMaps[m] {
		return
	}
	where := ""
	if ex.curFrame != nil {
		where = ex.curFrame.fn.String()
	}
	ex.raceEvents = append(ex.raceEvents, raceEvent{ex.curThread, kind, fmt.Sprintf("m%d", m.id), nil, where})
}

func prefixOf(a, b []int) bool {
	if len(a) > len(b) {
		return false
	}
	for i := range a {
		if a[i] != b[i] {
			return false
		}
	}
	return true
}

func conflicting(a, b raceEvent) bool {
	if a.thread == b.thread || (a.kind != 'W' && b.kind != 'W') {
		return false
	}
	if a.kind == 'L' || a.kind == 'U' || b.kind == 'L' || b.kind == 'U' {
		return false
	}
	if a.obj != b.obj {
		return false
	}
	return prefixOf(a.path, b.path) || prefixOf(b.path, a.path)
}

// raceQuery builds the SMT-LIB query and returns (race found, description).
func (ex *Exec) raceQuery() (bool, string, bool) {
	evs := ex.raceEvents
	if len(evs) > 400 {
		ex.unsupported(fmt.Sprintf("race query over %d events (bound 400)", len(evs)))
	}
	tf := ex.tf
	ex.raceQueries++
	clk := make([]*Term, len(evs))
	for i := range evs {
		clk[i] = tf.VarRanged(fmt.Sprintf("$clk%d_%d", ex.raceQueries, i), 64, 0, 1<<20)
	}
	lt := func(a, b *Term) *Term { return tf.Cmp("bvslt", a, b) }
	var cs []*Term
	for i := range evs {
		cs = append(cs, tf.Cmp("bvsle", tf.Const(64, 0), clk[i]), tf.Cmp("bvsle", clk[i], tf.Const(64, 1<<20)))
	}
	// program order
	last := map[int]int{}
	for i, e := range evs {
		if j, ok := last[e.thread]; ok {
			cs = append(cs, lt(clk[j], clk[i]))
		}
		last[e.thread] = i
	}
	// critical sections: (lock index, unlock index) per thread and mutex
	type section struct{ l, u, thread int; mu string }
	var secs []section
	open := map[string]int{}
	for i, e := range evs {
		key := fmt.Sprintf("%d|%s%v", e.thread, e.obj, e.path)
		if e.kind == 'L' {
			open[key] = i
		}
		if e.kind == 'U' {
			if l, ok := open[key]; ok {
				secs = append(secs, section{l, i, e.thread, fmt.Sprintf("%s%v", e.obj, e.path)})
				delete(open, key)
			}
		}
	}
	for i := range secs {
		for j := i + 1; j < len(secs); j++ {
			a, b := secs[i], secs[j]
			if a.thread != b.thread && a.mu == b.mu {
				cs = append(cs, tf.Or(lt(clk[a.u], clk[b.l]), lt(clk[b.u], clk[a.l])))
			}
		}
	}
	// happens-before between events of different threads: some unlock at-or-after a (program order)
	// precedes some lock at-or-before b on the same mutex
	hb := func(a, b int) *Term {
		r := tf.Bool(false)
		for _, s1 := range secs {
			if s1.thread != evs[a].thread || s1.u < a {
				continue
			}
			for _, s2 := range secs {
				if s2.thread != evs[b].thread || s2.l > b || s1.mu != s2.mu {
					continue
				}
				r = tf.Or(r, lt(clk[s1.u], clk[s2.l]))
			}
		}
		return r
	}
	race := tf.Bool(false)
	type pair struct{ a, b int }
	var pairs []pair
	for i := range evs {
		for j := i + 1; j < len(evs); j++ {
			if conflicting(evs[i], evs[j]) {
				pairs = append(pairs, pair{i, j})
				race = tf.Or(race, tf.And(tf.Not(hb(i, j)), tf.Not(hb(j, i))))
			}
		}
	}
	if len(pairs) == 0 {
		return false, "", true
	}
	q := append(cs, race)
	r, m := ex.check(q, true)
	ex.stats.Obligations++
	switch r {
	case Unsat:
		ex.stats.Discharged++
		return false, "", true
	case Unknown:
		return false, "", false
	}
	// find a witness pair under the model
	memo := map[int]uint64{}
	desc := "conflicting accesses unordered by happens-before"
	for _, p := range pairs {
		w := tf.And(tf.Not(hb(p.a, p.b)), tf.Not(hb(p.b, p.a)))
		if w.Eval(m, memo) == 1 {
			a, b := evs[p.a], evs[p.b]
			desc = fmt.Sprintf("data race: thread %d %c %s%v in %s  ||  thread %d %c %s%v in %s", a.thread, a.kind, a.obj, a.path, shortFn(a.where), b.thread, b.kind, b.obj, b.path, shortFn(b.where))
			break
		}
	}
	return true, desc, true
}

func shortFn(s string) string {
	if i := strings.LastIndex(s, "/"); i >= 0 {
		return s[i+1:]
	}
	return s
}

func init() {
	extraAPI = append(extraAPI, func(ex *Exec) {
		tf := ex.tf
		ex.intr["vf:vfShared"] = func(ex *Exec, fr *Frame, a []Value) Value {
			ex.markTraced(a[0])
			return nil
		}
		// vfParallel(f1, f2): two thread bodies; executed sequentially in a forked order
		ex.intr["vf:vfParallel"] = func(ex *Exec, fr *Frame, a []Value) Value {
			for g, o := range ex.globals {
				_ = g
				ex.traced[o] = true
				ex.markTraced(o.v)
			}
			order := ex.choice(2)
			ex.choiceLog = append(ex.choiceLog, choiceRec{"$parallel-order", order})
			first, second := 0, 1
			if order == 1 {
				first, second = 1, 0
			}
			ex.curThread = first + 1
			ex.call(fr, a[first], nil, nil)
			ex.curThread = second + 1
			ex.call(fr, a[second], nil, nil)
			ex.curThread = 0
			return nil
		}
		ex.intr["vf:vfRaceFree"] = func(ex *Exec, fr *Frame, a []Value) Value {
			found, desc, ok := ex.raceQuery()
			if !ok {
				ex.stats.Inconclusive = append(ex.stats.Inconclusive, "solver unknown on race query")
				return tf.Bool(true)
			}
			if found {
				ex.lastDiff = desc
			}
			ex.stats.noteRace(len(ex.raceEvents))
			return tf.Bool(!found)
		}
		ex.eventHook = func(kind string, p PtrV) {
			if ex.curThread == 0 {
				return
			}
			k := byte('L')
			if strings.Contains(kind, "nlock") {
				k = 'U'
			}
			where := ""
			if ex.curFrame != nil {
				where = ex.curFrame.fn.String()
			}
			ex.raceEvents = append(ex.raceEvents, raceEvent{ex.curThread, k, fmt.Sprintf("o%d", p.obj.id), append([]int{}, p.path...), where})
		}
	})
}
