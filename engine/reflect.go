package main

import (
	"fmt"
	"go/types"
)

// The subset of package reflect used by dstutil/rewrite.go and x/tools astutil/rewrite.go, implemented
// directly over the engine heap. A reflect.Value is an immutable *ReflV: either an addressable location
// (loc) or a plain value (val), with its static type.
type ReflV struct {
	t     types.Type
	loc   PtrV
	addr  bool
	val   Value
	valid bool
}

type ReflT struct{ t types.Type }

func (ex *Exec) rvGet(v *ReflV) Value {
	if v.addr {
		return ex.load(v.loc)
	}
	return v.val
}

func (ex *Exec) reflPanic(msg string) {
	panic(&goPanic{msg: "reflect: " + msg, runtime: true, val: IfaceV{t: types.Typ[types.String], v: ex.cstr("reflect: " + msg)}})
}

func reflKind(t types.Type) uint64 {
	switch u := t.Underlying().(type) {
	case *types.Basic:
		switch u.Kind() {
		case types.Bool:
			return 1
		case types.Int:
			return 2
		case types.String:
			return 24
		}
		return 2
	case *types.Array:
		return 17
	case *types.Chan:
		return 18
	case *types.Signature:
		return 19
	case *types.Interface:
		return 20
	case *types.Map:
		return 21
	case *types.Pointer:
		return 22
	case *types.Slice:
		return 23
	case *types.Struct:
		return 25
	}
	return 0
}

func (ex *Exec) reflValueOf(i IfaceV) *ReflV {
	if i.t == nil {
		return &ReflV{}
	}
	return &ReflV{t: i.t, val: i.v, valid: true}
}

// assignTo converts x for storage into a location of static type t (reflect's assignability rules for
// the cases that occur: identical types, or concrete -> interface it implements).
func (ex *Exec) reflAssign(x *ReflV, t types.Type) Value {
	if !x.valid {
		ex.reflPanic("call of reflect.Value.Set on zero Value")
	}
	xv := ex.rvGet(x)
	if it, ok := t.Underlying().(*types.Interface); ok {
		// x may itself be of interface type (element of an interface slice)
		if _, xi := x.t.Underlying().(*types.Interface); xi {
			iv := xv.(IfaceV)
			if iv.t != nil && !types.Implements(iv.t, it) {
				ex.reflPanic(fmt.Sprintf("value of type %s is not assignable to type %s", iv.t, t))
			}
			return iv
		}
		if !types.Implements(x.t, it) {
			ex.reflPanic(fmt.Sprintf("value of type %s is not assignable to type %s", x.t, t))
		}
		return IfaceV{t: x.t, v: xv}
	}
	if _, xi := x.t.Underlying().(*types.Interface); xi {
		ex.reflPanic(fmt.Sprintf("value of type %s is not assignable to type %s", x.t, t))
	}
	if !types.Identical(x.t, t) {
		ex.reflPanic(fmt.Sprintf("value of type %s is not assignable to type %s", x.t, t))
	}
	return xv
}

func (ex *Exec) initReflect() {
	tf := ex.tf
	in := ex.intr
	rv := func(v Value) *ReflV {
		r, ok := v.(*ReflV)
		if !ok {
			ex.unsupported(fmt.Sprintf("reflect.Value of unexpected engine type %T", v))
		}
		return r
	}
	in["reflect.ValueOf"] = func(ex *Exec, fr *Frame, a []Value) Value { return ex.reflValueOf(a[0].(IfaceV)) }
	in["reflect.Indirect"] = func(ex *Exec, fr *Frame, a []Value) Value {
		v := rv(a[0])
		if !v.valid {
			return v
		}
		pt, ok := v.t.Underlying().(*types.Pointer)
		if !ok {
			return v
		}
		p := ex.rvGet(v).(PtrV)
		if p.obj == nil {
			return &ReflV{}
		}
		return &ReflV{t: pt.Elem(), loc: p, addr: true, valid: true}
	}
	in["(reflect.Value).FieldByName"] = func(ex *Exec, fr *Frame, a []Value) Value {
		v := rv(a[0])
		name := ex.concStr(a[1], "FieldByName")
		if !v.valid {
			ex.reflPanic("call of reflect.Value.FieldByName on zero Value")
		}
		st, ok := v.t.Underlying().(*types.Struct)
		if !ok {
			ex.reflPanic("call of reflect.Value.FieldByName on non-struct Value")
		}
		for i := 0; i < st.NumFields(); i++ {
			if st.Field(i).Name() == name {
				if v.addr {
					return &ReflV{t: st.Field(i).Type(), loc: subPtr(v.loc, i), addr: true, valid: true}
				}
				return &ReflV{t: st.Field(i).Type(), val: copyAgg(v.val.(*StructV).fields[i]), valid: true}
			}
		}
		return &ReflV{}
	}
	in["(reflect.Value).Len"] = func(ex *Exec, fr *Frame, a []Value) Value {
		v := rv(a[0])
		if !v.valid {
			ex.reflPanic("call of reflect.Value.Len on zero Value")
		}
		switch x := ex.rvGet(v).(type) {
		case SliceV:
			return tf.Const(64, uint64(x.len))
		case *MapV:
			if x == nil {
				return tf.Const(64, 0)
			}
			return tf.Const(64, uint64(len(x.live())))
		case *StrV:
			return ex.strLen(x)
		}
		ex.reflPanic("call of reflect.Value.Len on " + v.t.String())
		return nil
	}
	in["(reflect.Value).Index"] = func(ex *Exec, fr *Frame, a []Value) Value {
		v := rv(a[0])
		if !v.valid {
			ex.reflPanic("call of reflect.Value.Index on zero Value")
		}
		s, ok := ex.rvGet(v).(SliceV)
		if !ok {
			ex.reflPanic("call of reflect.Value.Index on " + v.t.String())
		}
		i := ex.concIndexRefl(ex.toInt(a[1]), s.len)
		et := v.t.Underlying().(*types.Slice).Elem()
		return &ReflV{t: et, loc: PtrV{obj: s.arr, path: []int{s.off + i}}, addr: true, valid: true}
	}
	in["(reflect.Value).Set"] = func(ex *Exec, fr *Frame, a []Value) Value {
		v, x := rv(a[0]), rv(a[1])
		if !v.valid || !v.addr {
			ex.reflPanic("reflect.Value.Set using unaddressable value")
		}
		ex.store(v.loc, ex.reflAssign(x, v.t))
		return nil
	}
	in["(reflect.Value).Slice"] = func(ex *Exec, fr *Frame, a []Value) Value {
		v := rv(a[0])
		s, ok := ex.rvGet(v).(SliceV)
		if !ok {
			ex.reflPanic("call of reflect.Value.Slice on " + v.t.String())
		}
		i := int(ex.concretize(ex.toInt(a[1]), "reflect Slice i"))
		j := int(ex.concretize(ex.toInt(a[2]), "reflect Slice j"))
		if i < 0 || j < i || j > s.cap {
			ex.reflPanic("reflect.Value.Slice: slice index out of bounds")
		}
		return &ReflV{t: v.t, val: SliceV{arr: s.arr, off: s.off + i, len: j - i, cap: s.cap - i}, valid: true}
	}
	in["(reflect.Value).SetLen"] = func(ex *Exec, fr *Frame, a []Value) Value {
		v := rv(a[0])
		if !v.addr {
			ex.reflPanic("reflect.Value.SetLen using unaddressable value")
		}
		s := ex.load(v.loc).(SliceV)
		n := int(ex.concretize(ex.toInt(a[1]), "reflect SetLen"))
		if n < 0 || n > s.cap {
			ex.reflPanic("reflect: slice length out of range in SetLen")
		}
		s.len = n
		ex.store(v.loc, s)
		return nil
	}
	in["(reflect.Value).Kind"] = func(ex *Exec, fr *Frame, a []Value) Value {
		v := rv(a[0])
		if !v.valid {
			return tf.Const(64, 0)
		}
		return tf.Const(64, reflKind(v.t))
	}
	in["(reflect.Value).IsValid"] = func(ex *Exec, fr *Frame, a []Value) Value { return tf.Bool(rv(a[0]).valid) }
	in["(reflect.Value).IsNil"] = func(ex *Exec, fr *Frame, a []Value) Value {
		v := rv(a[0])
		if !v.valid {
			ex.reflPanic("call of reflect.Value.IsNil on zero Value")
		}
		switch x := ex.rvGet(v).(type) {
		case PtrV:
			return tf.Bool(x.obj == nil)
		case SliceV:
			return tf.Bool(x.arr == nil)
		case *MapV:
			return tf.Bool(x == nil)
		case IfaceV:
			return tf.Bool(x.t == nil)
		case *FuncV:
			return tf.Bool(x == nil)
		}
		ex.reflPanic("call of reflect.Value.IsNil on " + v.t.String())
		return nil
	}
	in["(reflect.Value).Interface"] = func(ex *Exec, fr *Frame, a []Value) Value {
		v := rv(a[0])
		if !v.valid {
			ex.reflPanic("call of reflect.Value.Interface on zero Value")
		}
		x := ex.rvGet(v)
		if iv, ok := x.(IfaceV); ok {
			return iv
		}
		return IfaceV{t: v.t, v: x}
	}
	in["(reflect.Value).Type"] = func(ex *Exec, fr *Frame, a []Value) Value {
		v := rv(a[0])
		if !v.valid {
			ex.reflPanic("call of reflect.Value.Type on zero Value")
		}
		return IfaceV{t: reflTypeMarker, v: &ReflT{v.t}}
	}
	in["reflect.Zero"] = func(ex *Exec, fr *Frame, a []Value) Value {
		rt := a[0].(IfaceV).v.(*ReflT)
		return &ReflV{t: rt.t, val: ex.zero(rt.t), valid: true}
	}
	in["reflect.Append"] = func(ex *Exec, fr *Frame, a []Value) Value {
		v := rv(a[0])
		s := ex.rvGet(v).(SliceV)
		et := v.t.Underlying().(*types.Slice).Elem()
		var add []Value
		for _, e := range ex.sliceElems(a[1]) {
			add = append(add, ex.reflAssign(rv(e), et))
		}
		if len(add) == 0 {
			return &ReflV{t: v.t, val: s, valid: true}
		}
		return &ReflV{t: v.t, val: ex.appendVals(s, add, et), valid: true}
	}
	in["reflect.Copy"] = func(ex *Exec, fr *Frame, a []Value) Value {
		d, s := ex.rvGet(rv(a[0])).(SliceV), ex.rvGet(rv(a[1])).(SliceV)
		n := d.len
		if s.len < n {
			n = s.len
		}
		tmp := make([]Value, n)
		for i := 0; i < n; i++ {
			tmp[i] = s.arr.v.(*ArrayV).elems[s.off+i]
		}
		for i := 0; i < n; i++ {
			d.arr.v.(*ArrayV).elems[d.off+i] = copyAgg(tmp[i])
		}
		return tf.Const(64, uint64(n))
	}
}

// reflTypeMarker is the dynamic "type" of engine-made reflect.Type values (never inspected).
var reflTypeMarker types.Type = types.NewNamed(types.NewTypeName(0, nil, "gosym.reflectType", nil), types.NewStruct(nil, nil), nil)

func (ex *Exec) concIndexRefl(t *Term, n int) int {
	if t.IsConst() {
		i := t.SVal()
		if i < 0 || i >= int64(n) {
			ex.reflPanic("reflect: slice index out of range")
		}
		return int(i)
	}
	return ex.concIndex(t, n, "reflect index")
}

// reflTypeMethod handles method calls on engine-made reflect.Type values.
func (ex *Exec) reflTypeMethod(rt *ReflT, name string) Value {
	switch name {
	case "Elem":
		switch u := rt.t.Underlying().(type) {
		case *types.Slice:
			return IfaceV{t: reflTypeMarker, v: &ReflT{u.Elem()}}
		case *types.Pointer:
			return IfaceV{t: reflTypeMarker, v: &ReflT{u.Elem()}}
		case *types.Array:
			return IfaceV{t: reflTypeMarker, v: &ReflT{u.Elem()}}
		case *types.Map:
			return IfaceV{t: reflTypeMarker, v: &ReflT{u.Elem()}}
		}
		ex.reflPanic("Elem of invalid type " + rt.t.String())
	case "String":
		return ex.cstr(rt.t.String())
	case "Kind":
		return ex.tf.Const(64, reflKind(rt.t))
	}
	ex.unsupported("reflect.Type method " + name)
	return nil
}
