package main

import (
	"bufio"
	"fmt"
	"io"
	"os"
	"os/exec"
	"strconv"
	"strings"
	"time"
)

type SatResult int

const (
	Unsat SatResult = iota
	Sat
	Unknown
)

func (r SatResult) String() string { return [...]string{"unsat", "sat", "unknown"}[r] }

// Solver is a persistent SMT-LIB2 solver process. Terms are defined once at level 0 with
// define-fun / declare-const; queries are push / assert refs / check-sat / pop.
type Solver struct {
	name    string
	cmd     *exec.Cmd
	in      io.WriteCloser
	out     *bufio.Reader
	defined map[int]bool
	tf      *TermFactory
	Queries int
	Time    time.Duration
	Errors  int
	log     io.Writer
	timeoutMs int
	intMode bool // terms are rendered as linear integer arithmetic (only for "safe" terms)
}

func solverArgs(name string, timeoutMs int) []string {
	switch name {
	case "z3":
		return []string{"z3", "-in", fmt.Sprintf("-t:%d", timeoutMs)}
	case "z3-new":
		return []string{"z3-new", "-in", fmt.Sprintf("-t:%d", timeoutMs)}
	case "cvc5":
		return []string{"cvc5", "--incremental", "--lang=smt2", "--produce-models", fmt.Sprintf("--tlimit-per=%d", timeoutMs)}
	}
	panic("unknown solver " + name)
}

func NewIntSolver(name string, tf *TermFactory, timeoutMs int) (*Solver, error) {
	s, err := newSolver(name, tf, timeoutMs, true)
	return s, err
}

func NewSolver(name string, tf *TermFactory, timeoutMs int) (*Solver, error) {
	return newSolver(name, tf, timeoutMs, false)
}

func newSolver(name string, tf *TermFactory, timeoutMs int, intMode bool) (*Solver, error) {
	args := solverArgs(name, timeoutMs)
	cmd := exec.Command(args[0], args[1:]...)
	in, err := cmd.StdinPipe()
	if err != nil {
		return nil, err
	}
	out, err := cmd.StdoutPipe()
	if err != nil {
		return nil, err
	}
	cmd.Stderr = cmd.Stdout
	if err := cmd.Start(); err != nil {
		return nil, err
	}
	s := &Solver{name: name, cmd: cmd, in: in, out: bufio.NewReader(out), defined: map[int]bool{}, tf: tf, timeoutMs: timeoutMs, intMode: intMode}
	if lf := os.Getenv("GOSYM_SMTLOG"); lf != "" {
		f, _ := os.OpenFile(lf, os.O_CREATE|os.O_WRONLY|os.O_APPEND, 0o644)
		s.log = f
	}
	s.send("(set-option :produce-models true)")
	if intMode {
		s.send("(set-logic QF_LIA)")
	} else if name == "cvc5" || name == "z3" {
		// only Bool and BitVec sorts are ever emitted, so QF_BV cannot make z3 4.8.12 drop anything;
		// any (error line still makes the query inconclusive
		s.send("(set-logic QF_BV)")
	}
	return s, nil
}

func (s *Solver) Close() {
	if s == nil || s.cmd == nil {
		return
	}
	s.in.Close()
	s.cmd.Process.Kill()
	s.cmd.Wait()
}

func (s *Solver) send(line string) {
	if s.log != nil {
		fmt.Fprintln(s.log, line)
	}
	io.WriteString(s.in, line+"\n")
}

func (s *Solver) define(t *Term) {
	if t.op == "const" || s.defined[t.id] {
		return
	}
	for _, a := range t.args {
		s.define(a)
	}
	s.defined[t.id] = true
	if s.intMode {
		if t.op == "var" {
			s.send(fmt.Sprintf("(declare-const %s %s)", t.iref(), isortStr(t.w)))
			if t.w != 0 {
				s.send(fmt.Sprintf("(assert (and (<= %s %s) (<= %s %s)))", s.tf.Const(64, uint64(t.lo)).iref(), t.iref(), t.iref(), s.tf.Const(64, uint64(t.hi)).iref()))
			}
			return
		}
		s.send(fmt.Sprintf("(define-fun %s () %s %s)", t.iref(), isortStr(t.w), t.ibody()))
		return
	}
	if t.op == "var" {
		s.send(fmt.Sprintf("(declare-const %s %s)", t.ref(), sortStr(t.w)))
		return
	}
	s.send(fmt.Sprintf("(define-fun %s () %s %s)", t.ref(), sortStr(t.w), t.body()))
}

func (s *Solver) readLine() (string, error) {
	l, err := s.out.ReadString('\n')
	return strings.TrimSpace(l), err
}

// Check decides satisfiability of the conjunction of ts. With wantModel, returns values of all
// declared variables occurring in the defined set.
func (s *Solver) Check(ts []*Term, wantModel bool) (SatResult, map[string]uint64) {
	start := time.Now()
	defer func() { s.Time += time.Since(start); s.Queries++ }()
	for _, t := range ts {
		if t.IsFalse() {
			return Unsat, nil
		}
	}
	for _, t := range ts {
		s.define(t)
	}
	s.send("(push 1)")
	for _, t := range ts {
		if t.IsTrue() {
			continue
		}
		if s.intMode {
			s.send("(assert " + t.iref() + ")")
		} else {
			s.send("(assert " + t.ref() + ")")
		}
	}
	s.send("(check-sat)")
	res := Unknown
	errSeen := false
	for {
		l, err := s.readLine()
		if err != nil {
			s.Errors++
			return Unknown, nil
		}
		if l == "" {
			continue
		}
		if strings.Contains(l, "(error") || strings.HasPrefix(l, "error") {
			s.Errors++
			errSeen = true
			// keep reading until the verdict line so that we stay in sync
			continue
		}
		if l == "sat" {
			res = Sat
			break
		}
		if l == "unsat" {
			res = Unsat
			break
		}
		if l == "unknown" || l == "timeout" {
			res = Unknown
			break
		}
	}
	if errSeen {
		// an (error line was printed for this query: inconclusive, never trusted
		res = Unknown
	}
	var model map[string]uint64
	if res == Sat && wantModel {
		model = map[string]uint64{}
		vars := []*Term{}
		seen := map[int]bool{}
		var collect func(t *Term)
		collect = func(t *Term) {
			if seen[t.id] {
				return
			}
			seen[t.id] = true
			if t.op == "var" {
				vars = append(vars, t)
			}
			for _, a := range t.args {
				collect(a)
			}
		}
		for _, t := range ts {
			collect(t)
		}
		if len(vars) > 0 {
			var sb strings.Builder
			sb.WriteString("(get-value (")
			for _, v := range vars {
				if s.intMode {
					sb.WriteString(v.iref() + " ")
				} else {
					sb.WriteString(v.ref() + " ")
				}
			}
			sb.WriteString("))")
			s.send(sb.String())
			// read balanced s-expression
			txt := s.readSexp()
			parseModel(txt, model)
		}
	}
	s.send("(pop 1)")
	return res, model
}

func (s *Solver) readSexp() string {
	var sb strings.Builder
	depth := 0
	started := false
	for {
		l, err := s.out.ReadString('\n')
		if err != nil {
			return sb.String()
		}
		sb.WriteString(l)
		inBar := false
		for _, c := range l {
			if c == '|' {
				inBar = !inBar
			}
			if inBar {
				continue
			}
			if c == '(' {
				depth++
				started = true
			} else if c == ')' {
				depth--
			}
		}
		if started && depth <= 0 {
			return sb.String()
		}
	}
}

// parseModel parses ((|name| #x..) (|n2| true) ...) into m.
func parseModel(txt string, m map[string]uint64) {
	i := 0
	n := len(txt)
	for i < n {
		// find next '|'
		j := strings.IndexByte(txt[i:], '|')
		if j < 0 {
			return
		}
		j += i
		k := strings.IndexByte(txt[j+1:], '|')
		if k < 0 {
			return
		}
		k += j + 1
		name := txt[j+1 : k]
		// value: skip spaces
		p := k + 1
		for p < n && (txt[p] == ' ' || txt[p] == '\n') {
			p++
		}
		q := p
		if q < n && txt[q] == '(' {
			// (_ bvN w) or (- N)
			e := strings.IndexByte(txt[q:], ')')
			tok := txt[q : q+e+1]
			fs := strings.Fields(strings.Trim(tok, "()"))
			if len(fs) >= 2 && strings.HasPrefix(fs[1], "bv") {
				v, _ := strconv.ParseUint(fs[1][2:], 10, 64)
				m[name] = v
			} else if len(fs) == 2 && fs[0] == "-" {
				v, _ := strconv.ParseInt(fs[1], 10, 64)
				m[name] = uint64(-v)
			}
			i = q + e + 1
			continue
		}
		for q < n && txt[q] != ')' && txt[q] != ' ' && txt[q] != '\n' {
			q++
		}
		tok := txt[p:q]
		switch {
		case tok == "true":
			m[name] = 1
		case tok == "false":
			m[name] = 0
		case strings.HasPrefix(tok, "#x"):
			v, _ := strconv.ParseUint(tok[2:], 16, 64)
			m[name] = v
		case strings.HasPrefix(tok, "#b"):
			v, _ := strconv.ParseUint(tok[2:], 2, 64)
			m[name] = v
		case len(tok) > 0 && tok[0] >= '0' && tok[0] <= '9':
			v, _ := strconv.ParseUint(tok, 10, 64)
			m[name] = v
		}
		i = q
	}
}
