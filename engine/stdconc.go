package main

import (
	"fmt"
	"go/types"
	"path"
	"path/filepath"
	"reflect"
	"strconv"
	"strings"
	"unicode"
	"unicode/utf8"
)

// Concrete stdlib calls: pure functions of strings / ints / bools / string slices. When every argument
// is concrete the real function is called (the engine runs on the same Go toolchain as /repo's
// build); with a symbolic argument the call is "unsupported" unless a symbolic intrinsic exists.
var concreteFuncs = map[string]interface{}{
	"strings.IndexRune": strings.IndexRune, "strings.IndexAny": strings.IndexAny,
	"strings.LastIndexByte": strings.LastIndexByte, "strings.Split": strings.Split, "strings.SplitN": strings.SplitN,
	"strings.Join": strings.Join, "strings.Fields": strings.Fields, "strings.TrimPrefix": strings.TrimPrefix,
	"strings.TrimSuffix": strings.TrimSuffix, "strings.TrimLeft": strings.TrimLeft, "strings.TrimRight": strings.TrimRight,
	"strings.Trim": strings.Trim, "strings.ToLower": strings.ToLower, "strings.ToUpper": strings.ToUpper,
	"strings.EqualFold": strings.EqualFold, "strings.Count": strings.Count, "strings.ContainsRune": strings.ContainsRune,
	"strings.ContainsAny": strings.ContainsAny, "strings.Title": strings.Title, "strings.ReplaceAll": strings.ReplaceAll,
	"strings.Compare": strings.Compare, "strings.Cut": strings.Cut,
	"internal/stringslite.Index": strings.Index,
	"internal/stringslite.HasPrefix": strings.HasPrefix, "internal/stringslite.HasSuffix": strings.HasSuffix,
	"internal/stringslite.Cut": strings.Cut, "internal/stringslite.CutPrefix": strings.CutPrefix, "internal/stringslite.CutSuffix": strings.CutSuffix,
	"internal/stringslite.TrimPrefix": strings.TrimPrefix, "internal/stringslite.TrimSuffix": strings.TrimSuffix,
	"internal/bytealg.CountString": func(s string, c byte) int { return strings.Count(s, string(c)) },
	"strconv.Atoi":      strconv.Atoi,
	"strconv.FormatInt": strconv.FormatInt, "strconv.ParseInt": strconv.ParseInt, "strconv.ParseBool": strconv.ParseBool,
	"strconv.QuoteToASCII": strconv.QuoteToASCII, "strconv.QuoteRune": strconv.QuoteRune,
	"unicode.IsLetter": unicode.IsLetter, "unicode.IsDigit": unicode.IsDigit, "unicode.IsUpper": unicode.IsUpper,
	"unicode.IsLower": unicode.IsLower, "unicode.IsSpace": unicode.IsSpace, "unicode.ToLower": unicode.ToLower, "unicode.ToUpper": unicode.ToUpper,
	"unicode/utf8.ValidString": utf8.ValidString,
	"unicode/utf8.DecodeRuneInString": utf8.DecodeRuneInString, "unicode/utf8.DecodeLastRuneInString": utf8.DecodeLastRuneInString,
	"unicode/utf8.RuneLen": utf8.RuneLen,
	"path.Base": path.Base, "path.Dir": path.Dir, "path.Join": path.Join, "path.Clean": path.Clean, "path.Ext": path.Ext,
	"path/filepath.Base": filepath.Base, "path/filepath.Dir": filepath.Dir, "path/filepath.Join": filepath.Join,
	"path/filepath.Split": filepath.Split, "path/filepath.Clean": filepath.Clean, "path/filepath.Ext": filepath.Ext,
	"path/filepath.ToSlash": filepath.ToSlash, "path/filepath.FromSlash": filepath.FromSlash, "path/filepath.IsAbs": filepath.IsAbs,
}

func (ex *Exec) toReflect(v Value, t reflect.Type) (reflect.Value, bool) {
	switch t.Kind() {
	case reflect.String:
		s, ok := v.(*StrV)
		if !ok || !s.isC {
			return reflect.Value{}, false
		}
		return reflect.ValueOf(s.conc), true
	case reflect.Int, reflect.Int64, reflect.Int32, reflect.Int8, reflect.Int16:
		x, ok := v.(*Term)
		if !ok || !x.IsConst() {
			return reflect.Value{}, false
		}
		r := reflect.New(t).Elem()
		r.SetInt(x.SVal())
		return r, true
	case reflect.Uint8, reflect.Uint, reflect.Uint32, reflect.Uint64:
		x, ok := v.(*Term)
		if !ok || !x.IsConst() {
			return reflect.Value{}, false
		}
		r := reflect.New(t).Elem()
		r.SetUint(x.val)
		return r, true
	case reflect.Bool:
		x, ok := v.(*Term)
		if !ok || !x.IsConst() {
			return reflect.Value{}, false
		}
		return reflect.ValueOf(x.val == 1), true
	case reflect.Slice:
		if t.Elem().Kind() != reflect.String {
			return reflect.Value{}, false
		}
		s, ok := v.(SliceV)
		if !ok {
			return reflect.Value{}, false
		}
		out := make([]string, s.len)
		for i := 0; i < s.len; i++ {
			e, ok := s.arr.v.(*ArrayV).elems[s.off+i].(*StrV)
			if !ok || !e.isC {
				return reflect.Value{}, false
			}
			out[i] = e.conc
		}
		return reflect.ValueOf(out), true
	}
	return reflect.Value{}, false
}

func (ex *Exec) fromReflect(r reflect.Value) Value {
	switch r.Kind() {
	case reflect.String:
		return ex.cstr(r.String())
	case reflect.Int, reflect.Int64:
		return ex.tf.Const(64, uint64(r.Int()))
	case reflect.Int32:
		return ex.tf.Const(32, uint64(r.Int()))
	case reflect.Uint8:
		return ex.tf.Const(8, r.Uint())
	case reflect.Bool:
		return ex.tf.Bool(r.Bool())
	case reflect.Slice:
		n := r.Len()
		sl := ex.makeSlice(types.Typ[types.String], n, n)
		for i := 0; i < n; i++ {
			sl.arr.v.(*ArrayV).elems[i] = ex.cstr(r.Index(i).String())
		}
		if r.IsNil() {
			return SliceV{}
		}
		return sl
	case reflect.Interface:
		if r.IsNil() {
			return IfaceV{}
		}
		if err, ok := r.Interface().(error); ok {
			return errorIface(ex, ex.cstr(err.Error()))
		}
	}
	ex.unsupported(fmt.Sprintf("result kind %s of concrete stdlib call", r.Kind()))
	return nil
}

func (ex *Exec) initConcreteFuncs() {
	for name, f := range concreteFuncs {
		if _, exists := ex.intr[name]; exists {
			continue
		}
		name, fv := name, reflect.ValueOf(f)
		ex.intr[name] = func(ex *Exec, fr *Frame, a []Value) Value {
			ft := fv.Type()
			var in []reflect.Value
			if ft.IsVariadic() {
				ex.unsupported("variadic concrete call " + name)
			}
			if len(a) != ft.NumIn() {
				ex.unsupported("arity mismatch in concrete call " + name)
			}
			for i, v := range a {
				rv, ok := ex.toReflect(v, ft.In(i))
				if !ok {
					ex.unsupported("symbolic argument to " + name)
				}
				in = append(in, rv)
			}
			out := fv.Call(in)
			switch len(out) {
			case 0:
				return nil
			case 1:
				return ex.fromReflect(out[0])
			}
			tv := make(TupleV, len(out))
			for i, o := range out {
				tv[i] = ex.fromReflect(o)
			}
			return tv
		}
	}
}
