package main

import (
	"fmt"
	"math/bits"
	"strings"
)

// Term is a hash-consed SMT term of sort Bool (w==0) or (_ BitVec w).
type Term struct {
	op   string // "const","var","not","and","or","ite","=","bvadd",... "extract","zext","sext","concat"
	args []*Term
	w    int    // 0 = Bool, else bit width
	val  uint64 // for const (bool: 0/1)
	name string // for var
	p1   int    // extract hi / ext amount
	p2   int    // extract lo
	id   int
	// integer view: safe means the term denotes the same value under bit-vector and unbounded-integer
	// semantics for every assignment of its variables within their declared ranges, and that value
	// lies in [lo, hi] (64-bit terms are read as signed, narrower ones as unsigned).
	safe   bool
	lo, hi int64
}

// TermFactory hash-conses terms; one per executor (not thread safe).
type TermFactory struct {
	tab   map[tkey]*Term
	terms []*Term
	vars  []*Term
}

func NewTermFactory() *TermFactory {
	return &TermFactory{tab: map[tkey]*Term{}}
}

func mask(w int) uint64 {
	if w >= 64 {
		return ^uint64(0)
	}
	return (uint64(1) << uint(w)) - 1
}

type tkey struct {
	op         string
	w, p1, p2  int
	val        uint64
	name       string
	a0, a1, a2 int
}

func (f *TermFactory) mk(t *Term) *Term {
	k := tkey{op: t.op, w: t.w, p1: t.p1, p2: t.p2, val: t.val, name: t.name, a0: -1, a1: -1, a2: -1}
	if len(t.args) > 0 {
		k.a0 = t.args[0].id
	}
	if len(t.args) > 1 {
		k.a1 = t.args[1].id
	}
	if len(t.args) > 2 {
		k.a2 = t.args[2].id
	}
	if x, ok := f.tab[k]; ok {
		return x
	}
	t.id = len(f.terms)
	f.terms = append(f.terms, t)
	f.tab[k] = t
	f.computeSafe(t)
	if t.op == "var" {
		f.vars = append(f.vars, t)
	}
	return t
}

func (f *TermFactory) Const(w int, v uint64) *Term {
	return f.mk(&Term{op: "const", w: w, val: v & mask(w)})
}
func (f *TermFactory) Bool(b bool) *Term {
	if b {
		return f.mk(&Term{op: "const", w: 0, val: 1})
	}
	return f.mk(&Term{op: "const", w: 0, val: 0})
}
func (f *TermFactory) Var(name string, w int) *Term {
	return f.mk(&Term{op: "var", w: w, name: name})
}

// VarRanged declares a variable whose value is constrained (by the caller, in the path condition)
// to [lo, hi]; the range feeds the overflow analysis that licenses the integer encoding.
func (f *TermFactory) VarRanged(name string, w int, lo, hi int64) *Term {
	t := f.Var(name, w)
	if !t.safe || t.lo < lo || t.hi > hi {
		t.safe, t.lo, t.hi = true, lo, hi
	}
	return t
}

const safeLimit = int64(1) << 61

func (f *TermFactory) computeSafe(t *Term) {
	all := func() bool {
		for _, a := range t.args {
			if !a.safe {
				return false
			}
		}
		return true
	}
	rng := func(lo, hi int64) {
		if lo < -safeLimit || hi > safeLimit || lo > hi {
			t.safe = false
			return
		}
		t.safe, t.lo, t.hi = true, lo, hi
	}
	switch t.op {
	case "const":
		if t.w == 0 {
			t.safe = true
			return
		}
		if t.w == 64 {
			rng(t.SVal(), t.SVal())
		} else {
			rng(int64(t.val), int64(t.val))
		}
	case "var":
		if t.w == 0 {
			t.safe = true
		} else if t.w < 64 {
			rng(0, int64(mask(t.w)))
		}
	case "not", "and", "or":
		t.safe = all()
	case "=":
		t.safe = all() && (t.args[0].w == 0 || true)
	case "ite":
		if !all() {
			return
		}
		if t.w == 0 {
			t.safe = true
			return
		}
		a, b := t.args[1], t.args[2]
		lo, hi := a.lo, a.hi
		if b.lo < lo {
			lo = b.lo
		}
		if b.hi > hi {
			hi = b.hi
		}
		rng(lo, hi)
	case "bvadd":
		if all() && t.w == 64 {
			rng(t.args[0].lo+t.args[1].lo, t.args[0].hi+t.args[1].hi)
		}
	case "bvsub":
		if all() && t.w == 64 {
			rng(t.args[0].lo-t.args[1].hi, t.args[0].hi-t.args[1].lo)
		}
	case "bvneg":
		if all() && t.w == 64 {
			rng(-t.args[0].hi, -t.args[0].lo)
		}
	case "bvmul":
		if all() && t.w == 64 && t.args[1].IsConst() {
			c := t.args[1].SVal()
			if c > -(1<<20) && c < (1<<20) && t.args[0].lo > -(1<<40) && t.args[0].hi < (1<<40) {
				x, y := t.args[0].lo*c, t.args[0].hi*c
				if x > y {
					x, y = y, x
				}
				rng(x, y)
			}
		}
	case "bvslt", "bvsle":
		t.safe = all() && t.args[0].w == 64
	case "bvult", "bvule":
		// unsigned comparison agrees with the integer one when both sides are non-negative
		t.safe = all() && t.args[0].lo >= 0 && t.args[1].lo >= 0
	case "zext":
		if all() && t.args[0].w < 64 {
			rng(t.args[0].lo, t.args[0].hi)
		}
	case "sext":
		// narrower terms are read as unsigned: sign extension is only the identity below the sign bit
		if all() && t.args[0].w < 64 && t.args[0].hi < int64(1)<<uint(t.args[0].w-1) {
			rng(t.args[0].lo, t.args[0].hi)
		}
	case "extract":
		if all() && t.p2 == 0 && t.args[0].lo >= 0 && t.args[0].hi <= int64(mask(t.w)) && t.w < 64 {
			rng(t.args[0].lo, t.args[0].hi)
		}
	}
}

// iref / ibody: the integer (LIA) rendering of a safe term.
func (t *Term) iref() string {
	switch t.op {
	case "const":
		if t.w == 0 {
			return t.ref()
		}
		v := t.lo
		if v < 0 {
			return fmt.Sprintf("(- %d)", -v)
		}
		return fmt.Sprintf("%d", v)
	case "var":
		return "|" + t.name + "|"
	}
	return fmt.Sprintf("i%d", t.id)
}

func (t *Term) ibody() string {
	op := t.op
	switch t.op {
	case "bvadd":
		op = "+"
	case "bvsub":
		op = "-"
	case "bvmul":
		op = "*"
	case "bvneg":
		op = "-"
	case "bvslt", "bvult":
		op = "<"
	case "bvsle", "bvule":
		op = "<="
	case "zext", "sext", "extract":
		return t.args[0].iref()
	}
	var sb strings.Builder
	sb.WriteString("(" + op)
	for _, a := range t.args {
		sb.WriteString(" " + a.iref())
	}
	sb.WriteString(")")
	return sb.String()
}

func isortStr(w int) string {
	if w == 0 {
		return "Bool"
	}
	return "Int"
}

func (t *Term) IsConst() bool { return t.op == "const" }
func (t *Term) IsTrue() bool  { return t.op == "const" && t.w == 0 && t.val == 1 }
func (t *Term) IsFalse() bool { return t.op == "const" && t.w == 0 && t.val == 0 }

// Signed value of a constant.
func (t *Term) SVal() int64 {
	if t.w >= 64 {
		return int64(t.val)
	}
	v := t.val
	if v&(uint64(1)<<uint(t.w-1)) != 0 {
		v |= ^mask(t.w)
	}
	return int64(v)
}

func (f *TermFactory) Not(a *Term) *Term {
	if a.IsConst() {
		return f.Bool(a.val == 0)
	}
	if a.op == "not" {
		return a.args[0]
	}
	return f.mk(&Term{op: "not", w: 0, args: []*Term{a}})
}

func (f *TermFactory) And(a, b *Term) *Term {
	if a.IsFalse() || b.IsFalse() {
		return f.Bool(false)
	}
	if a.IsTrue() {
		return b
	}
	if b.IsTrue() {
		return a
	}
	if a == b {
		return a
	}
	if f.Not(a) == b {
		return f.Bool(false)
	}
	return f.mk(&Term{op: "and", w: 0, args: []*Term{a, b}})
}

func (f *TermFactory) Or(a, b *Term) *Term {
	if a.IsTrue() || b.IsTrue() {
		return f.Bool(true)
	}
	if a.IsFalse() {
		return b
	}
	if b.IsFalse() {
		return a
	}
	if a == b {
		return a
	}
	if f.Not(a) == b {
		return f.Bool(true)
	}
	return f.mk(&Term{op: "or", w: 0, args: []*Term{a, b}})
}

func (f *TermFactory) AndN(ts ...*Term) *Term {
	r := f.Bool(true)
	for _, t := range ts {
		r = f.And(r, t)
	}
	return r
}
func (f *TermFactory) OrN(ts ...*Term) *Term {
	r := f.Bool(false)
	for _, t := range ts {
		r = f.Or(r, t)
	}
	return r
}
func (f *TermFactory) Implies(a, b *Term) *Term { return f.Or(f.Not(a), b) }

func (f *TermFactory) Ite(c, a, b *Term) *Term {
	if c.IsTrue() {
		return a
	}
	if c.IsFalse() {
		return b
	}
	if a == b {
		return a
	}
	if a.w != b.w {
		panic(fmt.Sprintf("ite sort mismatch %d %d", a.w, b.w))
	}
	if a.w == 0 {
		if a.IsTrue() && b.IsFalse() {
			return c
		}
		if a.IsFalse() && b.IsTrue() {
			return f.Not(c)
		}
	}
	return f.mk(&Term{op: "ite", w: a.w, args: []*Term{c, a, b}})
}

func (f *TermFactory) Eq(a, b *Term) *Term {
	if a.w != b.w {
		panic(fmt.Sprintf("eq sort mismatch %d %d (%s, %s)", a.w, b.w, a, b))
	}
	if a == b {
		return f.Bool(true)
	}
	if a.IsConst() && b.IsConst() {
		return f.Bool(a.val == b.val)
	}
	if a.w == 0 {
		if a.IsTrue() {
			return b
		}
		if b.IsTrue() {
			return a
		}
		if a.IsFalse() {
			return f.Not(b)
		}
		if b.IsFalse() {
			return f.Not(a)
		}
	}
	// x+c1 == x+c2 and similar: (bvadd x c) == (bvadd x d)
	if a.op == "bvadd" && b.op == "bvadd" && a.args[0] == b.args[0] {
		return f.Eq(a.args[1], b.args[1])
	}
	if a.op == "bvadd" && a.args[0] == b && a.args[1].IsConst() {
		return f.Bool(a.args[1].val == 0)
	}
	if b.op == "bvadd" && b.args[0] == a && b.args[1].IsConst() {
		return f.Bool(b.args[1].val == 0)
	}
	if a.id > b.id {
		a, b = b, a
	}
	return f.mk(&Term{op: "=", w: 0, args: []*Term{a, b}})
}

// BV builds a binary bit-vector operation with constant folding.
func (f *TermFactory) BV(op string, a, b *Term) *Term {
	if a.w != b.w {
		panic(fmt.Sprintf("bv %s width mismatch %d %d", op, a.w, b.w))
	}
	w := a.w
	if a.IsConst() && b.IsConst() {
		x, y := a.val, b.val
		sx, sy := a.SVal(), b.SVal()
		switch op {
		case "bvadd":
			return f.Const(w, x+y)
		case "bvsub":
			return f.Const(w, x-y)
		case "bvmul":
			return f.Const(w, x*y)
		case "bvand":
			return f.Const(w, x&y)
		case "bvor":
			return f.Const(w, x|y)
		case "bvxor":
			return f.Const(w, x^y)
		case "bvshl":
			if y >= uint64(w) {
				return f.Const(w, 0)
			}
			return f.Const(w, x<<y)
		case "bvlshr":
			if y >= uint64(w) {
				return f.Const(w, 0)
			}
			return f.Const(w, x>>y)
		case "bvashr":
			if y >= uint64(w) {
				if sx < 0 {
					return f.Const(w, ^uint64(0))
				}
				return f.Const(w, 0)
			}
			return f.Const(w, uint64(sx>>y))
		case "bvudiv":
			if y != 0 {
				return f.Const(w, x/y)
			}
		case "bvurem":
			if y != 0 {
				return f.Const(w, x%y)
			}
		case "bvsdiv":
			if y != 0 {
				if sy == -1 {
					return f.Const(w, uint64(-sx))
				}
				return f.Const(w, uint64(sx/sy))
			}
		case "bvsrem":
			if y != 0 {
				if sy == -1 {
					return f.Const(w, 0)
				}
				return f.Const(w, uint64(sx%sy))
			}
		}
	}
	switch op {
	case "bvadd":
		if a.IsConst() {
			a, b = b, a
		}
		if b.IsConst() && b.val == 0 {
			return a
		}
		// (x + c1) + c2 -> x + (c1+c2)
		if b.IsConst() && a.op == "bvadd" && a.args[1].IsConst() {
			return f.BV("bvadd", a.args[0], f.Const(w, a.args[1].val+b.val))
		}
		// (x + c1) + y -> (x + y) + c1  (keep constants outermost)
		if !b.IsConst() && a.op == "bvadd" && a.args[1].IsConst() {
			return f.BV("bvadd", f.BV("bvadd", a.args[0], b), a.args[1])
		}
		if !a.IsConst() && b.op == "bvadd" && b.args[1].IsConst() {
			return f.BV("bvadd", f.BV("bvadd", a, b.args[0]), b.args[1])
		}
	case "bvsub":
		if b.IsConst() {
			return f.BV("bvadd", a, f.Const(w, -b.val))
		}
		if a == b {
			return f.Const(w, 0)
		}
		// (x + c) - x -> c
		if a.op == "bvadd" && a.args[0] == b {
			return a.args[1]
		}
		// (x + c1) - (y + c2) -> (x - y) + (c1-c2)
		if a.op == "bvadd" && a.args[1].IsConst() {
			return f.BV("bvadd", f.BV("bvsub", a.args[0], b), a.args[1])
		}
		if b.op == "bvadd" && b.args[1].IsConst() {
			return f.BV("bvadd", f.BV("bvsub", a, b.args[0]), f.Const(w, -b.args[1].val))
		}
	case "bvmul":
		if a.IsConst() {
			a, b = b, a
		}
		if b.IsConst() && b.val == 1 {
			return a
		}
		if b.IsConst() && b.val == 0 {
			return b
		}
	case "bvand":
		if a == b {
			return a
		}
		if b.IsConst() && b.val == 0 {
			return b
		}
		if a.IsConst() && a.val == 0 {
			return a
		}
		if b.IsConst() && b.val == mask(w) {
			return a
		}
		if a.IsConst() && a.val == mask(w) {
			return b
		}
	case "bvor":
		if a == b {
			return a
		}
		if b.IsConst() && b.val == 0 {
			return a
		}
		if a.IsConst() && a.val == 0 {
			return b
		}
	case "bvxor":
		if a == b {
			return f.Const(w, 0)
		}
	case "bvshl", "bvlshr", "bvashr":
		if b.IsConst() && b.val == 0 {
			return a
		}
	}
	return f.mk(&Term{op: op, w: w, args: []*Term{a, b}})
}

// Cmp builds a comparison: bvult bvule bvslt bvsle (gt/ge are swapped).
func (f *TermFactory) Cmp(op string, a, b *Term) *Term {
	if a.w != b.w {
		panic(fmt.Sprintf("cmp %s width mismatch %d %d", op, a.w, b.w))
	}
	switch op {
	case "bvugt":
		return f.Cmp("bvult", b, a)
	case "bvuge":
		return f.Cmp("bvule", b, a)
	case "bvsgt":
		return f.Cmp("bvslt", b, a)
	case "bvsge":
		return f.Cmp("bvsle", b, a)
	}
	if a.IsConst() && b.IsConst() {
		switch op {
		case "bvult":
			return f.Bool(a.val < b.val)
		case "bvule":
			return f.Bool(a.val <= b.val)
		case "bvslt":
			return f.Bool(a.SVal() < b.SVal())
		case "bvsle":
			return f.Bool(a.SVal() <= b.SVal())
		}
	}
	if a == b {
		return f.Bool(op == "bvule" || op == "bvsle")
	}
	return f.mk(&Term{op: op, w: 0, args: []*Term{a, b}})
}

func (f *TermFactory) BVNot(a *Term) *Term {
	if a.IsConst() {
		return f.Const(a.w, ^a.val)
	}
	return f.mk(&Term{op: "bvnot", w: a.w, args: []*Term{a}})
}
func (f *TermFactory) BVNeg(a *Term) *Term {
	if a.IsConst() {
		return f.Const(a.w, -a.val)
	}
	return f.mk(&Term{op: "bvneg", w: a.w, args: []*Term{a}})
}

// Resize converts a to width w (signed = sign-extend when growing).
func (f *TermFactory) Resize(a *Term, w int, signed bool) *Term {
	if a.w == w {
		return a
	}
	if a.w == 0 {
		panic("resize of bool")
	}
	if w < a.w {
		if a.IsConst() {
			return f.Const(w, a.val)
		}
		return f.mk(&Term{op: "extract", w: w, args: []*Term{a}, p1: w - 1, p2: 0})
	}
	if a.IsConst() {
		if signed {
			return f.Const(w, uint64(a.SVal()))
		}
		return f.Const(w, a.val)
	}
	if signed {
		return f.mk(&Term{op: "sext", w: w, args: []*Term{a}, p1: w - a.w})
	}
	return f.mk(&Term{op: "zext", w: w, args: []*Term{a}, p1: w - a.w})
}

func sortStr(w int) string {
	if w == 0 {
		return "Bool"
	}
	return fmt.Sprintf("(_ BitVec %d)", w)
}

func (t *Term) ref() string {
	switch t.op {
	case "const":
		if t.w == 0 {
			if t.val == 1 {
				return "true"
			}
			return "false"
		}
		if t.w%4 == 0 {
			return fmt.Sprintf("#x%0*x", t.w/4, t.val)
		}
		return fmt.Sprintf("(_ bv%d %d)", t.val, t.w)
	case "var":
		return "|" + t.name + "|"
	}
	return fmt.Sprintf("t%d", t.id)
}

// body returns the SMT-LIB expression of a non-leaf term in terms of refs of its args.
func (t *Term) body() string {
	var sb strings.Builder
	switch t.op {
	case "extract":
		fmt.Fprintf(&sb, "((_ extract %d %d) %s)", t.p1, t.p2, t.args[0].ref())
	case "zext":
		fmt.Fprintf(&sb, "((_ zero_extend %d) %s)", t.p1, t.args[0].ref())
	case "sext":
		fmt.Fprintf(&sb, "((_ sign_extend %d) %s)", t.p1, t.args[0].ref())
	default:
		sb.WriteString("(" + t.op)
		for _, a := range t.args {
			sb.WriteString(" " + a.ref())
		}
		sb.WriteString(")")
	}
	return sb.String()
}

// String renders a term as a nested S-expression (for samples / debugging), depth-limited.
func (t *Term) String() string { return t.str(6) }
func (t *Term) str(d int) string {
	if t.op == "const" || t.op == "var" {
		if t.op == "const" && t.w > 0 {
			return fmt.Sprintf("%d", t.SVal())
		}
		return t.ref()
	}
	if d == 0 {
		return "…"
	}
	var sb strings.Builder
	sb.WriteString("(" + t.op)
	for _, a := range t.args {
		sb.WriteString(" " + a.str(d-1))
	}
	sb.WriteString(")")
	return sb.String()
}

// Eval evaluates a term under a model (var name -> value). Missing vars are 0.
func (t *Term) Eval(m map[string]uint64, memo map[int]uint64) uint64 {
	if v, ok := memo[t.id]; ok {
		return v
	}
	var r uint64
	ev := func(i int) uint64 { return t.args[i].Eval(m, memo) }
	sv := func(i int) int64 {
		a := t.args[i]
		v := ev(i)
		if a.w < 64 && a.w > 0 && v&(uint64(1)<<uint(a.w-1)) != 0 {
			v |= ^mask(a.w)
		}
		return int64(v)
	}
	b2u := func(b bool) uint64 {
		if b {
			return 1
		}
		return 0
	}
	switch t.op {
	case "const":
		r = t.val
	case "var":
		r = m[t.name] & maskB(t.w)
	case "not":
		r = 1 - ev(0)
	case "and":
		r = ev(0) & ev(1)
	case "or":
		r = ev(0) | ev(1)
	case "ite":
		if ev(0) == 1 {
			r = ev(1)
		} else {
			r = ev(2)
		}
	case "=":
		r = b2u(ev(0) == ev(1))
	case "bvadd":
		r = ev(0) + ev(1)
	case "bvsub":
		r = ev(0) - ev(1)
	case "bvmul":
		r = ev(0) * ev(1)
	case "bvand":
		r = ev(0) & ev(1)
	case "bvor":
		r = ev(0) | ev(1)
	case "bvxor":
		r = ev(0) ^ ev(1)
	case "bvnot":
		r = ^ev(0)
	case "bvneg":
		r = -ev(0)
	case "bvshl":
		if ev(1) >= uint64(t.w) {
			r = 0
		} else {
			r = ev(0) << ev(1)
		}
	case "bvlshr":
		if ev(1) >= uint64(t.w) {
			r = 0
		} else {
			r = ev(0) >> ev(1)
		}
	case "bvashr":
		s := ev(1)
		if s >= uint64(t.w) {
			s = uint64(t.w - 1)
		}
		r = uint64(sv(0) >> s)
	case "bvudiv":
		if ev(1) == 0 {
			r = mask(t.w)
		} else {
			r = ev(0) / ev(1)
		}
	case "bvurem":
		if ev(1) == 0 {
			r = ev(0)
		} else {
			r = ev(0) % ev(1)
		}
	case "bvsdiv":
		if sv(1) == 0 {
			if sv(0) < 0 {
				r = 1
			} else {
				r = mask(t.w)
			}
		} else if sv(1) == -1 {
			r = uint64(-sv(0))
		} else {
			r = uint64(sv(0) / sv(1))
		}
	case "bvsrem":
		if sv(1) == 0 {
			r = ev(0)
		} else if sv(1) == -1 {
			r = 0
		} else {
			r = uint64(sv(0) % sv(1))
		}
	case "bvult":
		r = b2u(ev(0) < ev(1))
	case "bvule":
		r = b2u(ev(0) <= ev(1))
	case "bvslt":
		r = b2u(sv(0) < sv(1))
	case "bvsle":
		r = b2u(sv(0) <= sv(1))
	case "extract":
		r = ev(0) >> uint(t.p2)
	case "zext":
		r = ev(0)
	case "sext":
		r = uint64(sv(0))
	default:
		panic("eval: unknown op " + t.op)
	}
	r &= maskB(t.w)
	memo[t.id] = r
	return r
}

func maskB(w int) uint64 {
	if w == 0 {
		return 1
	}
	return mask(w)
}

var _ = bits.Len
