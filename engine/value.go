package main

import (
	"fmt"
	"go/types"
	"strings"

	"golang.org/x/tools/go/ssa"
)

// Value is one of: *Term, *StrV, PtrV, *StructV, *ArrayV, SliceV, *MapV, IfaceV, *FuncV, TupleV, *RangeIter
type Value interface{}

// Obj is a heap cell (allocation, global, backing array).
type Obj struct {
	id  int
	v   Value
	typ types.Type
	tag string
}

type PtrV struct {
	obj  *Obj
	path []int
}

func (p PtrV) IsNil() bool { return p.obj == nil }

type StructV struct{ fields []Value }
type ArrayV struct{ elems []Value }

type SliceV struct {
	arr           *Obj // holds *ArrayV; nil for nil slice
	off, len, cap int
}

type mapEntry struct {
	key, val Value
	deleted  bool
}
type MapV struct {
	id      int
	entries []*mapEntry
	typ     *types.Map
}

type IfaceV struct {
	t types.Type // nil for nil interface
	v Value
}

type FuncV struct {
	fn      *ssa.Function
	free    []Value
	builtin *ssa.Builtin
	native  func(ex *Exec, fr *Frame, args []Value) Value
}

type TupleV []Value

// Strings: a sequence of segments, each a single byte term or an opaque chunk.
type Opaque struct {
	id   int
	name string
	len  *Term // BV64, constrained >= 0 by creation-time assumption
}
type seg struct {
	b  *Term // BV8
	op *Opaque
}
type StrV struct {
	segs []seg
	conc string
	isC  bool // fully concrete (conc valid); segs built lazily
}

func (ex *Exec) cstr(s string) *StrV { return &StrV{conc: s, isC: true} }

func (ex *Exec) strSegs(s *StrV) []seg {
	if s.isC && s.segs == nil && len(s.conc) > 0 {
		sg := make([]seg, len(s.conc))
		for i := 0; i < len(s.conc); i++ {
			sg[i] = seg{b: ex.tf.Const(8, uint64(s.conc[i]))}
		}
		s.segs = sg
	}
	return s.segs
}

func (ex *Exec) mkStr(segs []seg) *StrV {
	conc := true
	for _, s := range segs {
		if s.op != nil || !s.b.IsConst() {
			conc = false
			break
		}
	}
	if conc {
		b := make([]byte, len(segs))
		for i, s := range segs {
			b[i] = byte(s.b.val)
		}
		return &StrV{conc: string(b), isC: true, segs: segs}
	}
	return &StrV{segs: segs}
}

func (ex *Exec) strLen(s *StrV) *Term {
	if s.isC {
		return ex.tf.Const(64, uint64(len(s.conc)))
	}
	n := 0
	var t *Term
	for _, sg := range s.segs {
		if sg.op != nil {
			if t == nil {
				t = sg.op.len
			} else {
				t = ex.tf.BV("bvadd", t, sg.op.len)
			}
		} else {
			n++
		}
	}
	c := ex.tf.Const(64, uint64(n))
	if t == nil {
		return c
	}
	return ex.tf.BV("bvadd", t, c)
}

func (ex *Exec) strConcat(a, b *StrV) *StrV {
	if a.isC && b.isC {
		return ex.cstr(a.conc + b.conc)
	}
	sa, sb := ex.strSegs(a), ex.strSegs(b)
	out := make([]seg, 0, len(sa)+len(sb))
	out = append(out, sa...)
	out = append(out, sb...)
	return ex.mkStr(out)
}

// strEq returns a Bool term for a == b, or ok=false if undecidable in this representation.
func (ex *Exec) strEq(a, b *StrV) (*Term, bool) {
	tf := ex.tf
	if a.isC && b.isC {
		return tf.Bool(a.conc == b.conc), true
	}
	sa, sb := ex.strSegs(a), ex.strSegs(b)
	res := tf.Bool(true)
	i := 0
	for ; i < len(sa) && i < len(sb); i++ {
		x, y := sa[i], sb[i]
		if x.op != nil || y.op != nil {
			break
		}
		res = tf.And(res, tf.Eq(x.b, y.b))
		if res.IsFalse() {
			return res, true
		}
	}
	ra, rb := sa[i:], sb[i:]
	if len(ra) == 0 && len(rb) == 0 {
		return res, true
	}
	// remaining parts: structural identity?
	if len(ra) == len(rb) {
		same := true
		r2 := res
		for j := range ra {
			if ra[j].op != nil || rb[j].op != nil {
				if ra[j].op != rb[j].op {
					same = false
					break
				}
			} else {
				r2 = tf.And(r2, tf.Eq(ra[j].b, rb[j].b))
			}
		}
		if same {
			return r2, true
		}
	}
	// one side exhausted (no opaque): the other must have total length 0 remaining
	onlyOpaqueLen := func(r []seg) (*Term, bool) {
		// remaining all-opaque: equal to empty iff all lengths are 0
		t := tf.Bool(true)
		for _, s := range r {
			if s.op == nil {
				return nil, false
			}
			t = tf.And(t, tf.Eq(s.op.len, tf.Const(64, 0)))
		}
		return t, true
	}
	if len(ra) == 0 {
		hasByte := false
		for _, s := range rb {
			if s.op == nil {
				hasByte = true
			}
		}
		if hasByte {
			return tf.Bool(false), true
		}
		t, _ := onlyOpaqueLen(rb)
		return tf.And(res, t), true
	}
	if len(rb) == 0 {
		hasByte := false
		for _, s := range ra {
			if s.op == nil {
				hasByte = true
			}
		}
		if hasByte {
			return tf.Bool(false), true
		}
		t, _ := onlyOpaqueLen(ra)
		return tf.And(res, t), true
	}
	// compare from the end as well: trailing bytes
	for len(ra) > 0 && len(rb) > 0 && ra[len(ra)-1].op == nil && rb[len(rb)-1].op == nil {
		res = tf.And(res, tf.Eq(ra[len(ra)-1].b, rb[len(rb)-1].b))
		ra, rb = ra[:len(ra)-1], rb[:len(rb)-1]
		if res.IsFalse() {
			return res, true
		}
	}
	if len(ra) == 1 && len(rb) == 1 && ra[0].op != nil && ra[0].op == rb[0].op {
		return res, true
	}
	return nil, false
}

func (s *StrV) String() string {
	if s.isC {
		return fmt.Sprintf("%q", s.conc)
	}
	var sb strings.Builder
	sb.WriteString("str[")
	for _, sg := range s.segs {
		if sg.op != nil {
			sb.WriteString("<" + sg.op.name + ">")
		} else if sg.b.IsConst() {
			sb.WriteByte(byte(sg.b.val))
		} else {
			sb.WriteString("?")
		}
	}
	sb.WriteString("]")
	return sb.String()
}

// RangeIter is the state of a range over map or string.
type RangeIter struct {
	m    *MapV
	keys []*mapEntry
	s    *StrV
	segs []seg
	pos  int
	idx  *Term // byte index for strings
}

// copyAgg deep-copies aggregate values (structs and arrays are value types).
func copyAgg(v Value) Value {
	switch x := v.(type) {
	case *StructV:
		n := &StructV{fields: make([]Value, len(x.fields))}
		for i, f := range x.fields {
			n.fields[i] = copyAgg(f)
		}
		return n
	case *ArrayV:
		n := &ArrayV{elems: make([]Value, len(x.elems))}
		for i, f := range x.elems {
			n.elems[i] = copyAgg(f)
		}
		return n
	}
	return v
}

func (ex *Exec) newObj(v Value, t types.Type, tag string) *Obj {
	ex.objCount++
	return &Obj{id: ex.objCount, v: v, typ: t, tag: tag}
}

func intWidth(b *types.Basic) (w int, signed bool, ok bool) {
	switch b.Kind() {
	case types.Int, types.Int64, types.UntypedInt:
		return 64, true, true
	case types.Int8:
		return 8, true, true
	case types.Int16:
		return 16, true, true
	case types.Int32, types.UntypedRune:
		return 32, true, true
	case types.Uint, types.Uint64, types.Uintptr:
		return 64, false, true
	case types.Uint8:
		return 8, false, true
	case types.Uint16:
		return 16, false, true
	case types.Uint32:
		return 32, false, true
	}
	return 0, false, false
}

// zero returns the zero value of type t.
func (ex *Exec) zero(t types.Type) Value {
	switch u := t.Underlying().(type) {
	case *types.Basic:
		if u.Kind() == types.Bool || u.Kind() == types.UntypedBool {
			return ex.tf.Bool(false)
		}
		if u.Kind() == types.String || u.Kind() == types.UntypedString {
			return ex.cstr("")
		}
		if w, _, ok := intWidth(u); ok {
			return ex.tf.Const(w, 0)
		}
		if u.Kind() == types.UnsafePointer {
			return PtrV{}
		}
		if u.Kind() == types.UntypedNil {
			return nil
		}
		if u.Info()&types.IsFloat != 0 {
			return FloatV(0)
		}
		ex.unsupported("zero of basic type " + t.String())
	case *types.Pointer:
		return PtrV{}
	case *types.Struct:
		s := &StructV{fields: make([]Value, u.NumFields())}
		for i := 0; i < u.NumFields(); i++ {
			s.fields[i] = ex.zero(u.Field(i).Type())
		}
		return s
	case *types.Array:
		a := &ArrayV{elems: make([]Value, int(u.Len()))}
		for i := range a.elems {
			a.elems[i] = ex.zero(u.Elem())
		}
		return a
	case *types.Slice:
		return SliceV{}
	case *types.Map:
		return (*MapV)(nil)
	case *types.Interface:
		return IfaceV{}
	case *types.Signature:
		return (*FuncV)(nil)
	case *types.Chan:
		return ChanV{}
	case *types.Tuple:
		tv := make(TupleV, u.Len())
		for i := 0; i < u.Len(); i++ {
			tv[i] = ex.zero(u.At(i).Type())
		}
		return tv
	}
	ex.unsupported("zero of type " + t.String())
	return nil
}

// RuneSeq is []rune(s) for a string with opaque chunks: only len() is supported.
type RuneSeq struct{ s *StrV }

type FloatV float64
type ChanV struct{}

// load reads the value a pointer designates (aggregates are copied).
func (ex *Exec) load(p PtrV) Value {
	if p.obj == nil {
		ex.goPanicRuntime("nil pointer dereference")
	}
	if ex.curThread != 0 {
		ex.raceAccess('R', p)
	}
	v := p.obj.v
	for _, i := range p.path {
		switch x := v.(type) {
		case *StructV:
			v = x.fields[i]
		case *ArrayV:
			if i < 0 || i >= len(x.elems) {
				ex.goPanicRuntime("index out of range")
			}
			v = x.elems[i]
		default:
			panic(fmt.Sprintf("load: bad path through %T", v))
		}
	}
	return copyAgg(v)
}

func (ex *Exec) store(p PtrV, nv Value) {
	if p.obj == nil {
		ex.goPanicRuntime("nil pointer dereference")
	}
	nv = copyAgg(nv)
	if ex.curThread != 0 {
		ex.raceAccess('W', p)
		if ex.traced[p.obj] {
			ex.markTraced(nv)
		}
	}
	if len(p.path) == 0 {
		p.obj.v = nv
		return
	}
	v := p.obj.v
	for k, i := range p.path {
		last := k == len(p.path)-1
		switch x := v.(type) {
		case *StructV:
			if last {
				x.fields[i] = nv
				return
			}
			v = x.fields[i]
		case *ArrayV:
			if i < 0 || i >= len(x.elems) {
				ex.goPanicRuntime("index out of range")
			}
			if last {
				x.elems[i] = nv
				return
			}
			v = x.elems[i]
		default:
			panic(fmt.Sprintf("store: bad path through %T", v))
		}
	}
}

func ptrEq(a, b PtrV) bool {
	if a.obj != b.obj {
		return false
	}
	if len(a.path) != len(b.path) {
		return false
	}
	for i := range a.path {
		if a.path[i] != b.path[i] {
			return false
		}
	}
	return true
}

func subPtr(p PtrV, i int) PtrV {
	np := make([]int, len(p.path)+1)
	copy(np, p.path)
	np[len(p.path)] = i
	return PtrV{obj: p.obj, path: np}
}

// equal returns a Bool term for Go's == on two values of identical static type.
func (ex *Exec) equal(a, b Value) *Term {
	tf := ex.tf
	switch x := a.(type) {
	case *Term:
		y, ok := b.(*Term)
		if !ok {
			panic(fmt.Sprintf("equal: %T vs %T", a, b))
		}
		return tf.Eq(x, y)
	case *StrV:
		t, ok := ex.strEq(x, b.(*StrV))
		if !ok {
			ex.unsupported(fmt.Sprintf("string equality undecidable in representation: %s == %s", x, b.(*StrV)))
		}
		return t
	case PtrV:
		y, ok := b.(PtrV)
		if !ok {
			if b == nil {
				return tf.Bool(x.obj == nil)
			}
			panic(fmt.Sprintf("equal: %T vs %T", a, b))
		}
		return tf.Bool(ptrEq(x, y))
	case *StructV:
		y := b.(*StructV)
		r := tf.Bool(true)
		for i := range x.fields {
			r = tf.And(r, ex.equal(x.fields[i], y.fields[i]))
		}
		return r
	case *ArrayV:
		y := b.(*ArrayV)
		r := tf.Bool(true)
		for i := range x.elems {
			r = tf.And(r, ex.equal(x.elems[i], y.elems[i]))
		}
		return r
	case IfaceV:
		y, ok := b.(IfaceV)
		if !ok {
			if b == nil {
				return tf.Bool(x.t == nil)
			}
			panic(fmt.Sprintf("equal: iface vs %T", b))
		}
		if x.t == nil || y.t == nil {
			return tf.Bool(x.t == nil && y.t == nil)
		}
		if !types.Identical(x.t, y.t) {
			return tf.Bool(false)
		}
		if !types.Comparable(x.t) {
			ex.goPanicRuntime("comparing uncomparable type " + x.t.String())
		}
		return ex.equal(x.v, y.v)
	case *MapV:
		y, _ := b.(*MapV)
		return tf.Bool(x == y) // only nil comparisons are legal in Go
	case SliceV:
		return tf.Bool(x.arr == nil) // only == nil legal
	case *FuncV:
		return tf.Bool(x == nil)
	case nil:
		switch y := b.(type) {
		case nil:
			return tf.Bool(true)
		case PtrV:
			return tf.Bool(y.obj == nil)
		case IfaceV:
			return tf.Bool(y.t == nil)
		case *MapV:
			return tf.Bool(y == nil)
		case SliceV:
			return tf.Bool(y.arr == nil)
		case *FuncV:
			return tf.Bool(y == nil)
		}
	case ChanV:
		return tf.Bool(true)
	case FloatV:
		return tf.Bool(x == b.(FloatV))
	}
	panic(fmt.Sprintf("equal: unhandled %T", a))
}

func (v *MapV) live() []*mapEntry {
	out := make([]*mapEntry, 0, len(v.entries))
	for _, e := range v.entries {
		if !e.deleted {
			out = append(out, e)
		}
	}
	return out
}
