package decorator

import (
	"go/ast"
	"go/token"
	"strconv"

	"github.com/dave/dst"
	"github.com/dave/dst/dstutil"
)

// ---- C02 L1: rendering is translation invariant -----------------------------------------------------

// For every node type: a generic instance (a comment on every point of the node and its children,
// symbolic Before/After, flags and token kinds) is restored from an arbitrary restorer state and from
// the same state moved by a symbolic distance delta (same freshness of the left context): every
// position of the second ast is the first one's plus delta, new line starts and comments likewise. So
// a node renders identically wherever it is moved, given the same left-context freshness - which is
// exactly what Before/After normalise (C05).
func vfPerType_C02(typ string) {
	g := &vfGen{prefix: "n", depth: 1, listLen: 1 + vfChoice("list2", 2), decPoint: "*", spaces: true, symFlags: true, symToks: true}
	n := g.Node(typ)
	r1 := vfRestorerMid()
	delta := vfInt("delta", 0, 1<<20)
	r2 := vfCopyRestorer(r1)
	fresh := r1.cursor == r1.cursorAtNewLine
	r2.cursor = r1.cursor + token.Pos(delta)
	r2.lines[len(r2.lines)-1] += delta
	r2.cursorAtNewLine = token.Pos(vfIte(fresh, int(r2.cursor), int(r1.cursorAtNewLine)))
	mark, c0 := len(r1.lines), len(r1.comments)
	a1 := r1.restoreNode(n, "", "", "", false)
	a2 := r2.restoreNode(n, "", "", "", false)
	vfReach("restored-twice")
	vfAssert(r2.cursor == r1.cursor+token.Pos(delta), "translated/cursor")
	vfAssert((r2.cursor == r2.cursorAtNewLine) == (r1.cursor == r1.cursorAtNewLine), "translated/freshness")
	vfAssert(len(r1.lines) == len(r2.lines), "translated/line-count")
	for i := mark; i < len(r1.lines) && i < len(r2.lines); i++ {
		vfAssert(r2.lines[i] == r1.lines[i]+delta, "translated/lines")
	}
	vfAssert(len(r1.comments) == len(r2.comments), "translated/comment-count")
	for i := c0; i < len(r1.comments) && i < len(r2.comments); i++ {
		vfAssert(vfPosShifted(r1.comments[i], r2.comments[i], delta), "translated/comments")
	}
	vfAssert(vfPosShifted(a1, a2, delta), "translated/ast")
}

// C02 L1b: duplication. The documented way to place an element twice is Clone; the duplicate must carry
// every field, spacing value and decoration of the original (deep equality, all flags, token kinds and
// spacing values symbolic), so that by L1 it renders as the original does.
func vfPerType_C02Dup(typ string) {
	g := &vfGen{prefix: "n", depth: 1, listLen: 2, decPoint: "*", spaces: true, symFlags: true, symToks: true}
	n := g.Node(typ)
	c := dst.Clone(n)
	vfReach("cloned")
	vfAssert(vfDeepEqual(n, c), "duplicate-equals-original")
}

// ---- C02 L2 + edits: chunks travel with their element -----------------------------------------------

type vfList struct {
	root  dst.Node
	get   func() []dst.Node
	set   func([]dst.Node)
	elems []dst.Node
}

func vfStmtList() *vfList {
	mk := func(s string) dst.Stmt { return &dst.ExprStmt{X: &dst.CallExpr{Fun: vfIdent(s)}} }
	b := &dst.BlockStmt{List: []dst.Stmt{mk("a"), mk("b"), mk("c")}}
	l := &vfList{root: b}
	l.get = func() []dst.Node {
		var o []dst.Node
		for _, x := range b.List {
			o = append(o, x)
		}
		return o
	}
	l.set = func(ns []dst.Node) {
		b.List = nil
		for _, x := range ns {
			b.List = append(b.List, x.(dst.Stmt))
		}
	}
	l.elems = l.get()
	return l
}

func vfExprList(kind int) *vfList {
	l := &vfList{}
	var list *[]dst.Expr
	if kind == 0 {
		c := &dst.CallExpr{Fun: vfIdent("f"), Args: []dst.Expr{vfIdent("a"), vfIdent("b"), vfIdent("c")}}
		l.root, list = &dst.ExprStmt{X: c}, &c.Args
	} else {
		c := &dst.CompositeLit{Type: vfIdent("T"), Elts: []dst.Expr{vfIdent("a"), vfIdent("b"), vfIdent("c")}}
		l.root, list = &dst.ExprStmt{X: c}, &c.Elts
	}
	l.get = func() []dst.Node {
		var o []dst.Node
		for _, x := range *list {
			o = append(o, x)
		}
		return o
	}
	l.set = func(ns []dst.Node) {
		*list = nil
		for _, x := range ns {
			*list = append(*list, x.(dst.Expr))
		}
	}
	l.elems = l.get()
	return l
}

func vfSpecList(imports bool) *vfList { return vfSpecListK(imports, false) }

func vfSpecListK(imports, typeSpecs bool) *vfList {
	gd := &dst.GenDecl{Tok: token.VAR, Lparen: true, Rparen: true}
	if typeSpecs {
		gd.Tok = token.TYPE
		for _, p := range []string{"A", "B", "C"} {
			gd.Specs = append(gd.Specs, &dst.TypeSpec{Name: vfIdent(p), Type: vfIdent("int")})
		}
	} else if imports {
		gd.Tok = token.IMPORT
		for _, p := range []string{"\"a\"", "\"b\"", "\"c\""} {
			gd.Specs = append(gd.Specs, &dst.ImportSpec{Path: &dst.BasicLit{Kind: token.STRING, Value: p}})
		}
	} else {
		for _, p := range []string{"a", "b", "c"} {
			gd.Specs = append(gd.Specs, &dst.ValueSpec{Names: []*dst.Ident{vfIdent(p)}, Type: vfIdent("int")})
		}
	}
	l := &vfList{root: gd}
	l.get = func() []dst.Node {
		var o []dst.Node
		for _, x := range gd.Specs {
			o = append(o, x)
		}
		return o
	}
	l.set = func(ns []dst.Node) {
		gd.Specs = nil
		for _, x := range ns {
			gd.Specs = append(gd.Specs, x.(dst.Spec))
		}
	}
	l.elems = l.get()
	return l
}

func vfFieldList(iface bool) *vfList {
	fl := &dst.FieldList{Opening: true, Closing: true}
	for _, p := range []string{"a", "b", "c"} {
		if iface {
			fl.List = append(fl.List, &dst.Field{Names: []*dst.Ident{vfIdent(p)}, Type: &dst.FuncType{Params: &dst.FieldList{Opening: true, Closing: true}}})
		} else {
			fl.List = append(fl.List, &dst.Field{Names: []*dst.Ident{vfIdent(p)}, Type: vfIdent("int")})
		}
	}
	var typ dst.Expr = &dst.StructType{Fields: fl}
	if iface {
		typ = &dst.InterfaceType{Methods: fl}
	}
	l := &vfList{root: &dst.GenDecl{Tok: token.TYPE, Specs: []dst.Spec{&dst.TypeSpec{Name: vfIdent("T"), Type: typ}}}}
	l.get = func() []dst.Node {
		var o []dst.Node
		for _, x := range fl.List {
			o = append(o, x)
		}
		return o
	}
	l.set = func(ns []dst.Node) {
		fl.List = nil
		for _, x := range ns {
			fl.List = append(fl.List, x.(*dst.Field))
		}
	}
	l.elems = l.get()
	return l
}

func vfDeclList() *vfList {
	f := &dst.File{Name: vfIdent("p")}
	for _, p := range []string{"a", "b", "c"} {
		f.Decls = append(f.Decls, &dst.GenDecl{Tok: token.VAR, Specs: []dst.Spec{&dst.ValueSpec{Names: []*dst.Ident{vfIdent(p)}, Type: vfIdent("int")}}})
	}
	l := &vfList{root: f}
	l.get = func() []dst.Node {
		var o []dst.Node
		for _, x := range f.Decls {
			o = append(o, x)
		}
		return o
	}
	l.set = func(ns []dst.Node) {
		f.Decls = nil
		for _, x := range ns {
			f.Decls = append(f.Decls, x.(dst.Decl))
		}
	}
	l.elems = l.get()
	return l
}

func vfClauseList() *vfList {
	body := &dst.BlockStmt{}
	for _, p := range []string{"a", "b", "c"} {
		body.List = append(body.List, &dst.CaseClause{List: []dst.Expr{vfIdent(p)}, Body: []dst.Stmt{&dst.ExprStmt{X: vfIdent("s" + p)}}})
	}
	l := &vfList{root: &dst.SwitchStmt{Tag: vfIdent("x"), Body: body}}
	l.get = func() []dst.Node {
		var o []dst.Node
		for _, x := range body.List {
			o = append(o, x)
		}
		return o
	}
	l.set = func(ns []dst.Node) {
		body.List = nil
		for _, x := range ns {
			body.List = append(body.List, x.(dst.Stmt))
		}
	}
	l.elems = l.get()
	return l
}

// chunk description of one element: comment lines directly above it, trailing same-line comment
type vfChunk struct {
	above    []string
	trailing string
	blank    bool // a blank line separates this chunk from the previous element
}

func vfAllDecorations(n dst.Node) []string {
	var out []string
	dst.Inspect(n, func(x dst.Node) bool {
		if x == nil {
			return true
		}
		if d := x.Decorations(); d != nil {
			out = append(out, d.Start...)
		}
		return true
	})
	return out
}

// vfC02 runs the chunk lemma and the edit check for one list kind.
func vfC02(l *vfList) {
	r0 := vfRestorerMid()
	vfAssume(r0.cursor != r0.cursorAtNewLine) // r0 only produces the positioned ast; its freshness is irrelevant
	an := r0.restoreNode(l.root, "", "", "", false)
	fd := NewDecorator(nil).newFileDecorator()
	fd.addNodeFragments(an)

	// layout: every element on its own line; chunk k = [above comment lines] element [trailing comment]
	chunks := make([]vfChunk, len(l.elems))
	quick := vfTier() == 0
	for k := range chunks {
		tag := "e" + strconv.Itoa(k)
		// quick tier: the first element has no comment lines above it, the last no trailing comment,
		// trailing comments are line comments, only the middle element may be preceded by a blank line
		na := 0
		if !quick || k > 0 {
			na = vfChoice(tag+".above", 2+vfTier())
		}
		for i := 0; i < na; i++ {
			chunks[k].above = append(chunks[k].above, vfOpaque(tag+".a"+strconv.Itoa(i), "//"+string(rune('A'+k*3+i))))
		}
		if !quick || k < len(chunks)-1 {
			switch vfChoice(tag+".trail", 2+vfTier()) {
			case 1:
				chunks[k].trailing = vfOpaque(tag+".t", "//"+string(rune('T'+k)))
			case 2:
				chunks[k].trailing = vfOpaque(tag+".t", "/*"+string(rune('T'+k))) + "*/"
			}
		}
		if k > 0 && (!quick || k == 1) {
			chunks[k].blank = vfChoice(tag+".blank", 2) == 1
		}
	}
	// insert, from the last element backwards so that indices stay valid: before element k's Start
	// fragment come: [trailing comment of k-1] line break (blank?) [above lines of k, one per line]
	for k := len(l.elems) - 1; k >= 0; k-- {
		ak := r0.Ast.Nodes[l.elems[k]]
		idx := -1
		for i, f := range fd.fragments {
			if df, ok := f.(*decorationFragment); ok && df.Node == ak && df.Name == "Start" {
				idx = i
				break
			}
		}
		vfAssert(idx >= 0, "element-has-start-point")
		if idx < 0 {
			return
		}
		var ins []fragment
		if k > 0 {
			if t := chunks[k-1].trailing; t != "" {
				ins = append(ins, &commentFragment{Text: t})
			}
			ins = append(ins, &newlineFragment{Empty: chunks[k].blank})
		} else {
			ins = append(ins, &newlineFragment{}) // the line break after the opening delimiter
		}
		for _, c := range chunks[k].above {
			ins = append(ins, &commentFragment{Text: c}, &newlineFragment{})
		}
		out := append([]fragment{}, fd.fragments[:idx]...)
		out = append(out, ins...)
		fd.fragments = append(out, fd.fragments[idx:]...)
	}
	// the trailing comment of the last element and the line break before the closing delimiter: after
	// the last token of the last element's subtree
	{
		last := r0.Ast.Nodes[l.elems[len(l.elems)-1]]
		idx := -1
		for i, f := range fd.fragments {
			if df, ok := f.(*decorationFragment); ok && df.Node == last && df.Name == "End" {
				idx = i + 1
			}
		}
		// skip further End fragments of enclosing nodes that sit at the same position? No: the next
		// token (closing delimiter) comes later; items sort directly after the element's own End
		var ins []fragment
		if t := chunks[len(chunks)-1].trailing; t != "" {
			ins = append(ins, &commentFragment{Text: t})
		}
		ins = append(ins, &newlineFragment{})
		out := append([]fragment{}, fd.fragments[:idx]...)
		out = append(out, ins...)
		fd.fragments = append(out, fd.fragments[idx:]...)
	}
	// gofmt shape: the line of the opening delimiter has some indent, every element / comment line the
	// same deeper indent, the closing line the opening one
	open := vfInt("indentOpen", 1, 20)
	elem := vfInt("indentElem", 1, 40)
	vfAssume(elem > open)
	line := 0
	cur := open
	nlines := 0
	for _, f := range fd.fragments {
		if f.Newline() {
			nlines++
		}
	}
	for i, frag := range fd.fragments {
		if i > 0 && fd.fragments[i-1].Newline() {
			line++
			cur = elem
			if line == nlines {
				cur = open // the closing delimiter's line
			}
		}
		switch frag := frag.(type) {
		case *decorationFragment:
			switch frag.Name {
			case "Start":
				fd.startIndents[frag.Node] = cur
			case "End":
				fd.endIndents[frag.Node] = cur
			}
		case *commentFragment:
			frag.Indent = cur
		}
	}

	var out dst.Node
	var err error
	panicked := vfExpectPanic(func() {
		fd.link()
		out, err = fd.decorateNode(nil, "", "", "", an)
	})
	vfAssert(!panicked && err == nil, "decorate-ok")
	if panicked || err != nil {
		return
	}
	vfReach("decorated")
	// L2: each chunk is stored on its own element
	delems := make([]dst.Node, len(l.elems))
	for k, e := range l.elems {
		delems[k] = fd.Dst.Nodes[r0.Ast.Nodes[e]]
	}
	for k, d := range delems {
		start := d.Decorations().Start
		vfAssert(len(start) >= len(chunks[k].above), "above-comments-in-own-start")
		j := 0
		for _, s := range start {
			if s == "\n" {
				continue
			}
			if j < len(chunks[k].above) {
				vfAssert(s == chunks[k].above[j], "above-comments-in-own-start")
			}
			j++
		}
		vfAssert(j == len(chunks[k].above), "start-holds-exactly-own-above-comments")
		if t := chunks[k].trailing; t != "" {
			found := false
			dst.Inspect(d, func(x dst.Node) bool {
				if x == nil {
					return true
				}
				for _, s := range x.Decorations().End {
					if s == t {
						found = true
					}
				}
				return true
			})
			vfAssert(found, "trailing-comment-in-own-subtree-end")
		}
		if k > 0 {
			sep := d.Decorations().Before == dst.EmptyLine || delems[k-1].Decorations().After == dst.EmptyLine
			vfAssert(sep == chunks[k].blank, "blank-line-is-spacing-of-the-adjacent-elements")
		}
	}

	// edits on the decorated list; then restore and find every chunk next to its element
	// (re-point the list adapter at the decorated tree)
	dl := vfRebind(l, out, delems)
	order := []int{0, 1, 2}
	switch vfChoice("edit", 5) {
	case 1:
		order = []int{1, 0, 2} // permute
	case 2:
		order = []int{0, 2} // delete the middle element
	case 3:
		order = []int{2, 0, 1} // move the last element to the front
	case 4:
		order = []int{0, 1, 2, 0} // duplicate the first element (Clone) at the end
	}
	var ns []dst.Node
	used := map[int]bool{}
	for _, k := range order {
		if used[k] {
			ns = append(ns, dst.Clone(delems[k]))
		} else {
			ns = append(ns, delems[k])
		}
		used[k] = true
	}
	dl.set(ns)

	r := vfRestorerMid()
	mark, c0 := len(r.lines), len(r.comments)
	r.restoreNode(out, "", "", "", false)
	var got []*ast.Comment
	for i := c0; i < len(r.comments); i++ {
		got = append(got, r.comments[i].List...)
	}
	// expected comment sequence: chunk by chunk in the new order
	ci := 0
	chunkEnd := token.Pos(0) // end of the previous chunk (element or its trailing comment)
	for pos, k := range order {
		an := r.Ast.Nodes[ns[pos]]
		first := vfFirstTokenPos(an, 0)
		lastEnd := vfLastTokenEnd(an, 0)
		// every element (with its chunk) starts on a line of its own
		if pos > 0 {
			firstItem := first
			if len(chunks[k].above) > 0 && ci < len(got) {
				firstItem = got[ci].Slash
			}
			vfAssert(vfBreaks(r, mark, chunkEnd, firstItem) >= 1, "edit/element-starts-on-its-own-line")
		}
		chunkEnd = lastEnd
		for _, c := range chunks[k].above {
			vfAssert(ci < len(got), "edit/comment-rendered")
			if ci >= len(got) {
				return
			}
			vfAssert(got[ci].Text == c, "edit/above-comment-travels-with-element")
			vfAssert(got[ci].Slash+token.Pos(len(c)) <= first, "edit/above-comment-before-its-element")
			// directly above: exactly one line break to what follows (next comment line or the element)
			next := first
			if ci+1 < len(got) && got[ci+1].Slash < first {
				next = got[ci+1].Slash
			}
			vfAssert(vfBreaks(r, mark, got[ci].Slash+token.Pos(len(c)), next) == 1, "edit/above-comment-directly-above")
			ci++
		}
		if t := chunks[k].trailing; t != "" {
			vfAssert(ci < len(got), "edit/comment-rendered")
			if ci >= len(got) {
				return
			}
			vfAssert(got[ci].Text == t, "edit/trailing-comment-travels-with-element")
			vfAssert(got[ci].Slash >= lastEnd, "edit/trailing-comment-after-its-element")
			vfAssert(vfBreaks(r, mark, lastEnd, got[ci].Slash) == 0, "edit/trailing-comment-on-the-same-line")
			chunkEnd = got[ci].Slash + token.Pos(len(t))
			ci++
		}
	}
	vfAssert(ci == len(got), "edit/no-comment-lost-or-duplicated")
	// the closing delimiter (the next positioned token after the list) stays on its own line
	for _, f := range vfFragments(r.Ast.Nodes[out]) {
		if pos, _, ok := vfFragExtent(f); ok && vfMeasurable(f) {
			if _, isTok := f.(*tokenFragment); isTok {
				afterAll := pos >= chunkEnd
				if vfB2I(afterAll) == 1 {
					vfAssert(vfBreaks(r, mark, chunkEnd, pos) >= 1, "edit/closing-delimiter-on-its-own-line")
					break
				}
			}
		}
	}
}

// vfRebind returns a list adapter over the decorated tree (same shape as the source tree).
func vfRebind(l *vfList, out dst.Node, delems []dst.Node) *vfList {
	nl := &vfList{root: out}
	// find the parent list by looking for the node whose children are delems
	dst.Inspect(out, func(x dst.Node) bool {
		switch p := x.(type) {
		case *dst.BlockStmt:
			if len(p.List) == len(delems) && len(delems) > 0 && dst.Node(p.List[0]) == delems[0] {
				nl.set = func(ns []dst.Node) {
					p.List = nil
					for _, n := range ns {
						p.List = append(p.List, n.(dst.Stmt))
					}
				}
			}
		case *dst.CallExpr:
			if len(p.Args) == len(delems) && len(delems) > 0 && dst.Node(p.Args[0]) == delems[0] {
				nl.set = func(ns []dst.Node) {
					p.Args = nil
					for _, n := range ns {
						p.Args = append(p.Args, n.(dst.Expr))
					}
				}
			}
		case *dst.CompositeLit:
			if len(p.Elts) == len(delems) && len(delems) > 0 && dst.Node(p.Elts[0]) == delems[0] {
				nl.set = func(ns []dst.Node) {
					p.Elts = nil
					for _, n := range ns {
						p.Elts = append(p.Elts, n.(dst.Expr))
					}
				}
			}
		case *dst.GenDecl:
			if len(p.Specs) == len(delems) && len(delems) > 0 && dst.Node(p.Specs[0]) == delems[0] {
				nl.set = func(ns []dst.Node) {
					p.Specs = nil
					for _, n := range ns {
						p.Specs = append(p.Specs, n.(dst.Spec))
					}
				}
			}
		case *dst.FieldList:
			if len(p.List) == len(delems) && len(delems) > 0 && dst.Node(p.List[0]) == delems[0] {
				nl.set = func(ns []dst.Node) {
					p.List = nil
					for _, n := range ns {
						p.List = append(p.List, n.(*dst.Field))
					}
				}
			}
		case *dst.File:
			if len(p.Decls) == len(delems) && len(delems) > 0 && dst.Node(p.Decls[0]) == delems[0] {
				nl.set = func(ns []dst.Node) {
					p.Decls = nil
					for _, n := range ns {
						p.Decls = append(p.Decls, n.(dst.Decl))
					}
				}
			}
		}
		return true
	})
	return nl
}

func VerifC02Stmts()    { vfC02(vfStmtList()) }
func VerifC02Args()     { vfC02(vfExprList(0)) }
func VerifC02Elements() { vfC02(vfExprList(1)) }
func VerifC02Specs()    { vfC02(vfSpecList(false)) }
func VerifC02TypeSpecs() { vfC02(vfSpecListK(false, true)) }
func VerifC02Imports()  { vfC02(vfSpecList(true)) }
func VerifC02Fields()   { vfC02(vfFieldList(false)) }
func VerifC02Methods()  { vfC02(vfFieldList(true)) }
func VerifC02Decls()    { vfC02(vfDeclList()) }
func VerifC02Clauses()  { vfC02(vfClauseList()) }

// ---- C02 L3: hanging comments of clause lists -----------------------------------------------------------
//
// A comment written in the body of a case / comm clause (one indent deeper than the `case` line, after
// the body's statements or in an empty body) belongs to that clause and not to the clause that follows.
// Layout (columns symbolic, body = case column + 1 as gofmt writes it):
//
//	switch x {            select {
//	case a:               case <-a:
//	    sa                    sa            (body: empty or one statement)
//	    // hang a             // hang a
//	                                        (optional blank line)
//	// above b            // above b
//	case b:               case <-b:
//
// The real link()/decorateNode must store "hang k" inside clause k's subtree and "above k" in clause k's
// Start; after a permute / delete / move / duplicate edit the real restoreNode renders each hanging
// comment on a line of its own between its clause's last token and the next clause (or the closing brace).
func VerifC02Hanging() {
	comm := vfChoice("select", 2) == 1
	// 0 all empty, 1 all one statement, 2 first and last empty, middle one statement (quick: only that)
	bodies := 2
	if vfTier() > 0 {
		bodies = vfChoice("bodies", 3)
	}
	body := &dst.BlockStmt{}
	names := []string{"a", "b", "c"}
	var bodyStmts []dst.Stmt
	for k, p := range names {
		var b []dst.Stmt
		if bodies == 1 || (bodies == 2 && k == 1) {
			s := &dst.ExprStmt{X: &dst.CallExpr{Fun: vfIdent("s" + p)}}
			b = []dst.Stmt{s}
			bodyStmts = append(bodyStmts, s)
		}
		if comm {
			body.List = append(body.List, &dst.CommClause{Comm: &dst.ExprStmt{X: &dst.UnaryExpr{Op: token.ARROW, X: vfIdent(p)}}, Body: b})
		} else {
			body.List = append(body.List, &dst.CaseClause{List: []dst.Expr{vfIdent(p)}, Body: b})
		}
	}
	var root dst.Node
	if comm {
		root = &dst.SelectStmt{Body: body}
	} else {
		root = &dst.SwitchStmt{Tag: vfIdent("x"), Body: body}
	}
	elems := make([]dst.Node, len(body.List))
	for i, s := range body.List {
		elems[i] = s
	}

	r0 := vfRestorerMid()
	vfAssume(r0.cursor != r0.cursorAtNewLine)
	an := r0.restoreNode(root, "", "", "", false)
	fd := NewDecorator(nil).newFileDecorator()
	fd.addNodeFragments(an)

	caseCol := vfInt("caseColumn", 1, 40)
	bodyCol := caseCol + 1
	hang := make([]string, len(elems))
	above := make([]string, len(elems))
	blank := make([]bool, len(elems))
	detached := make([]bool, len(elems))
	for k := range elems {
		tag := "e" + strconv.Itoa(k)
		if vfTier() > 0 || k < 2 {
			if vfChoice(tag+".hang", 2) == 1 {
				hang[k] = vfOpaque(tag+".h", "//H"+names[k])
			}
		}
		if k == 1 || (vfTier() > 0 && k == 2) {
			if vfChoice(tag+".above", 2) == 1 {
				above[k] = vfOpaque(tag+".a", "//A"+names[k])
			}
			blank[k] = vfChoice(tag+".blank", 2) == 1
			// the comment above clause k may itself be separated from the clause by a blank line; at the
			// case column it still belongs to the clause that follows (link(): "subsequent comments that
			// have the same indent as the Start ... are attached there")
			if above[k] != "" && !blank[k] && k == 1 {
				detached[k] = vfChoice(tag+".detached", 2) == 1
			}
		}
	}
	startIdx := func(n ast.Node) int {
		for i, f := range fd.fragments {
			if df, ok := f.(*decorationFragment); ok && df.Node == n && df.Name == "Start" {
				return i
			}
		}
		return -1
	}
	insertAt := func(idx int, ins []fragment) {
		out := append([]fragment{}, fd.fragments[:idx]...)
		out = append(out, ins...)
		fd.fragments = append(out, fd.fragments[idx:]...)
	}
	// behind the last clause: line break, hanging comment line, then the closing brace
	{
		last := r0.Ast.Nodes[elems[len(elems)-1]]
		idx := -1
		for i, f := range fd.fragments {
			if df, ok := f.(*decorationFragment); ok && df.Node == last && df.Name == "End" {
				idx = i + 1
			}
		}
		ins := []fragment{&newlineFragment{}}
		if h := hang[len(elems)-1]; h != "" {
			ins = append(ins, &commentFragment{Text: h, Indent: bodyCol}, &newlineFragment{})
		}
		insertAt(idx, ins)
	}
	bodyLine := map[ast.Node]bool{}
	for k := len(elems) - 1; k >= 0; k-- {
		// the body statement goes on its own line
		switch c := elems[k].(type) {
		case *dst.CaseClause:
			for _, s := range c.Body {
				as := r0.Ast.Nodes[s]
				bodyLine[as] = true
				insertAt(startIdx(as), []fragment{&newlineFragment{}})
			}
		case *dst.CommClause:
			for _, s := range c.Body {
				as := r0.Ast.Nodes[s]
				bodyLine[as] = true
				insertAt(startIdx(as), []fragment{&newlineFragment{}})
			}
		}
		idx := startIdx(r0.Ast.Nodes[elems[k]])
		vfAssert(idx >= 0, "element-has-start-point")
		if idx < 0 {
			return
		}
		var ins []fragment
		if k == 0 {
			ins = append(ins, &newlineFragment{}) // after the opening brace
		} else {
			if h := hang[k-1]; h != "" {
				ins = append(ins, &newlineFragment{}, &commentFragment{Text: h, Indent: bodyCol}, &newlineFragment{Empty: blank[k]})
			} else {
				ins = append(ins, &newlineFragment{Empty: blank[k]})
			}
			if a := above[k]; a != "" {
				ins = append(ins, &commentFragment{Text: a, Indent: caseCol}, &newlineFragment{Empty: detached[k]})
			}
		}
		insertAt(idx, ins)
	}
	// columns of the decoration points: the line's first fragment decides
	cur := caseCol
	for i, frag := range fd.fragments {
		if i > 0 && fd.fragments[i-1].Newline() {
			cur = caseCol
			switch f := frag.(type) {
			case *commentFragment:
				cur = f.Indent
			case *decorationFragment:
				if bodyLine[f.Node] {
					cur = bodyCol
				}
			}
		}
		if df, ok := frag.(*decorationFragment); ok {
			switch df.Name {
			case "Start":
				fd.startIndents[df.Node] = cur
			case "End":
				fd.endIndents[df.Node] = cur
			}
		}
	}

	var out dst.Node
	var err error
	panicked := vfExpectPanic(func() {
		fd.link()
		out, err = fd.decorateNode(nil, "", "", "", an)
	})
	vfAssert(!panicked && err == nil, "decorate-ok")
	if panicked || err != nil {
		return
	}
	vfReach("decorated")
	delems := make([]dst.Node, len(elems))
	for k, e := range elems {
		delems[k] = fd.Dst.Nodes[r0.Ast.Nodes[e]]
	}
	holds := func(n dst.Node, text string) int {
		cnt := 0
		dst.Inspect(n, func(x dst.Node) bool {
			if x == nil {
				return true
			}
			_, _, pts := dstutil.Decorations(x)
			for _, p := range pts {
				for _, s := range p.Decs {
					if s == text {
						cnt++
					}
				}
			}
			return true
		})
		return cnt
	}
	for k, d := range delems {
		if hang[k] != "" {
			vfAssert(holds(d, hang[k]) == 1, "hanging-comment-stored-in-its-own-clause")
			for j, o := range delems {
				if j != k {
					vfAssert(holds(o, hang[k]) == 0, "hanging-comment-not-stored-in-another-clause")
				}
			}
		}
		if above[k] != "" {
			found := false
			for _, s := range d.Decorations().Start {
				if s == above[k] {
					found = true
				}
			}
			vfAssert(found, "above-comments-in-own-start")
		}
		if k > 0 && (k == 1 || vfTier() > 0) {
			sep := d.Decorations().Before == dst.EmptyLine || delems[k-1].Decorations().After == dst.EmptyLine
			vfAssert(sep == blank[k], "blank-line-is-spacing-of-the-adjacent-elements")
		}
	}

	// edit, restore, locate
	var dblock *dst.BlockStmt
	switch o := out.(type) {
	case *dst.SwitchStmt:
		dblock = o.Body
	case *dst.SelectStmt:
		dblock = o.Body
	}
	order := []int{0, 1, 2}
	switch vfChoice("edit", 5) {
	case 1:
		order = []int{1, 0, 2}
	case 2:
		order = []int{0, 2}
	case 3:
		order = []int{2, 0, 1}
	case 4:
		order = []int{0, 1, 2, 0}
	}
	var ns []dst.Node
	used := map[int]bool{}
	dblock.List = nil
	for _, k := range order {
		n := delems[k]
		if used[k] {
			n = dst.Clone(n)
		}
		used[k] = true
		ns = append(ns, n)
		dblock.List = append(dblock.List, n.(dst.Stmt))
	}
	r := vfRestorerMid()
	mark, c0 := len(r.lines), len(r.comments)
	ra := r.restoreNode(out, "", "", "", false)
	var got []*ast.Comment
	for i := c0; i < len(r.comments); i++ {
		got = append(got, r.comments[i].List...)
	}
	ci := 0
	var closing token.Pos
	switch x := ra.(type) {
	case *ast.SwitchStmt:
		closing = x.Body.Rbrace
	case *ast.SelectStmt:
		closing = x.Body.Rbrace
	}
	for pos, k := range order {
		ae := r.Ast.Nodes[ns[pos]]
		first := vfFirstTokenPos(ae, 0)
		lastEnd := vfLastTokenEnd(ae, 0)
		next := closing
		if pos+1 < len(order) {
			next = vfFirstTokenPos(r.Ast.Nodes[ns[pos+1]], 0)
		}
		if a := above[k]; a != "" {
			vfAssert(ci < len(got), "edit/comment-rendered")
			if ci >= len(got) {
				return
			}
			vfAssert(got[ci].Text == a, "edit/above-comment-travels-with-element")
			vfAssert(got[ci].Slash+token.Pos(len(a)) <= first, "edit/above-comment-before-its-element")
			if detached[k] {
				vfAssert(vfBreaks(r, mark, got[ci].Slash+token.Pos(len(a)), first) >= 2, "edit/detached-comment-keeps-its-blank-line")
			} else {
				vfAssert(vfBreaks(r, mark, got[ci].Slash+token.Pos(len(a)), first) == 1, "edit/above-comment-directly-above")
			}
			ci++
		}
		if h := hang[k]; h != "" {
			vfAssert(ci < len(got), "edit/comment-rendered")
			if ci >= len(got) {
				return
			}
			vfAssert(got[ci].Text == h, "edit/hanging-comment-travels-with-its-clause")
			vfAssert(got[ci].Slash >= lastEnd, "edit/hanging-comment-after-its-clause")
			vfAssert(got[ci].Slash+token.Pos(len(h)) <= next, "edit/hanging-comment-before-the-next-clause")
			vfAssert(vfBreaks(r, mark, lastEnd, got[ci].Slash) >= 1, "edit/hanging-comment-on-its-own-line")
			vfAssert(vfBreaks(r, mark, got[ci].Slash+token.Pos(len(h)), next) >= 1, "edit/hanging-comment-on-its-own-line")
			ci++
		}
	}
	vfAssert(ci == len(got), "edit/no-comment-lost-or-duplicated")
}

// ---- C02 L4: a deleted element takes its comments with it, also when objects still refer to it ---------
//
// With Restorer.Extras the restorer also restores nodes that are reachable only through Object.Decl /
// Object.Data (e.g. a deleted declaration whose object is still in the file scope, or a deleted `x := 1`
// whose variable is used later). Those nodes are not part of the file: what is printed (comments, line
// table, file size) must be what a restorer without Extras produces, and hold no comment of the deleted
// element.
func VerifC02DeleteExtras() {
	cm := func(tag, dflt string) string { return vfOpaque(tag, dflt) }
	var f *dst.File
	var deleted []string
	var kept []string
	switch vfChoice("shape", 2) {
	case 0: // top-level declarations, objects in the file scope
		sc := dst.NewScope(nil)
		var decls []dst.Decl
		for k, p := range []string{"a", "b", "c"} {
			name := &dst.Ident{Name: p}
			fd := &dst.FuncDecl{Name: name, Type: &dst.FuncType{Func: true, Params: &dst.FieldList{Opening: true, Closing: true}}, Body: &dst.BlockStmt{}}
			fd.Decs.Start.Append(cm("doc"+p, "// doc "+p))
			fd.Decs.End.Append(cm("trail"+p, "// trail "+p))
			fd.Decs.Before, fd.Decs.After = dst.EmptyLine, dst.EmptyLine
			obj := &dst.Object{Kind: dst.Fun, Name: p, Decl: fd}
			name.Obj = obj
			sc.Insert(obj)
			decls = append(decls, fd)
			_ = k
		}
		del := vfChoice("delete", 3)
		f = &dst.File{Name: &dst.Ident{Name: "p"}, Scope: sc}
		for k, d := range decls {
			texts := []string{d.Decorations().Start[0], d.Decorations().End[0]}
			if k == del {
				deleted = append(deleted, texts...)
				continue
			}
			kept = append(kept, texts...)
			f.Decls = append(f.Decls, d)
		}
	default: // a local short variable declaration whose variable is used by a later statement
		xDef := &dst.Ident{Name: "x"}
		s1 := &dst.AssignStmt{Lhs: []dst.Expr{xDef}, Tok: token.DEFINE, Rhs: []dst.Expr{&dst.BasicLit{Kind: token.INT, Value: "1"}}}
		obj := &dst.Object{Kind: dst.Var, Name: "x", Decl: s1}
		xDef.Obj = obj
		s1.Decs.Start.Append(cm("aboutx", "// about x"))
		s1.Decs.End.Append(cm("trailx", "// x is one"))
		s1.Decs.Before, s1.Decs.After = dst.NewLine, dst.NewLine
		xUse := &dst.Ident{Name: "x", Obj: obj}
		s2 := &dst.ExprStmt{X: &dst.CallExpr{Fun: &dst.Ident{Name: "g"}, Args: []dst.Expr{xUse}}}
		s2.Decs.Start.Append(cm("abouty", "// about y"))
		s2.Decs.End.Append(cm("traily", "// y uses x"))
		s2.Decs.Before, s2.Decs.After = dst.NewLine, dst.NewLine
		fn := &dst.FuncDecl{Name: &dst.Ident{Name: "f"}, Type: &dst.FuncType{Func: true, Params: &dst.FieldList{Opening: true, Closing: true}}, Body: &dst.BlockStmt{List: []dst.Stmt{s2}}}
		f = &dst.File{Name: &dst.Ident{Name: "p"}, Decls: []dst.Decl{fn}}
		deleted = []string{s1.Decs.Start[0], s1.Decs.End[0]}
		kept = []string{s2.Decs.Start[0], s2.Decs.End[0]}
	}
	plain := NewRestorer()
	af0, err0 := plain.RestoreFile(f)
	ext := NewRestorer()
	ext.Extras = true
	af1, err1 := ext.RestoreFile(f)
	vfAssert(err0 == nil && err1 == nil, "restore-ok")
	if err0 != nil || err1 != nil {
		return
	}
	vfReach("restored")
	var got []string
	for _, cg := range af1.Comments {
		for _, c := range cg.List {
			got = append(got, c.Text)
		}
	}
	vfAssert(len(got) == len(kept), "deleted-element-takes-its-comments-with-it")
	for i := range got {
		if i < len(kept) {
			vfAssert(got[i] == kept[i], "remaining-comments-in-order")
		}
	}
	_ = deleted
	vfAssert(vfDeepEqual(af0.Comments, af1.Comments), "extras-does-not-change-what-is-printed/comments")
	tf0, tf1 := plain.Fset.File(af0.Package), ext.Fset.File(af1.Package)
	vfAssert(tf0 != nil && tf1 != nil, "file-registered")
	if tf0 == nil || tf1 == nil {
		return
	}
	vfAssert(tf0.Size() == tf1.Size(), "extras-does-not-change-what-is-printed/size")
	vfAssert(tf0.LineCount() == tf1.LineCount(), "extras-does-not-change-what-is-printed/lines")
	for i := 1; i <= tf0.LineCount() && i <= tf1.LineCount(); i++ {
		vfAssert(tf0.LineStart(i) == tf1.LineStart(i), "extras-does-not-change-what-is-printed/lines")
	}
}
