package decorator

import (
	"go/ast"
	"go/token"

	"github.com/dave/dst"
)

// C05: Before/After spacing between two adjacent siblings A and B renders by the documented
// non-additive rule; line comments and "\n" decorations contribute exactly their own break.
//
// The code between the last token of A and the first token of B is exactly what every generated
// restoreNode case runs: applyDecorations(A,End,end=true), applySpace(A,After), applySpace(B,Before),
// applyDecorations(B,Start). It is run from an arbitrary restorer state; the line breaks between
// consecutive positioned items (comments, then B's first token) are read from the real r.lines and
// compared, capped at 2 (one blank line, printer contract PC), with the documented rule.
func vfC05(badA bool, maxDecs int, interior bool) {
	r := vfRestorer()
	var a dst.Node = &dst.Ident{Name: "a"}
	if badA {
		a = &dst.BadExpr{Length: 1}
	}
	b := &dst.Ident{Name: "b"}
	an, bn := &ast.Ident{}, &ast.Ident{}
	dA, kA := vfDecorations("dA", maxDecs)
	dB, kB := vfDecorations("dB", maxDecs)
	sa := vfInt("sa", 0, 2)
	sb := vfInt("sb", 0, 2)
	fresh := r.cursor == r.cursorAtNewLine
	mark := len(r.lines)
	c0 := len(r.comments)
	prevEnd := r.cursor

	if interior {
		// the decorations of an interior point of the parent (e.g. BlockStmt.Lbrace, CallExpr.Lparen,
		// FieldList.Opening) followed by the first child's Before: the same rule with After = None
		vfAssume(sa == 0)
		r.applyDecorations(an, "Lbrace", dA, false)
	} else {
		r.applyDecorations(an, "End", dA, true)
		r.applySpace(a, "After", dst.SpaceType(sa))
	}
	r.applySpace(b, "Before", dst.SpaceType(sb))
	r.applyDecorations(bn, "Start", dB, false)
	tokB := r.cursor
	vfReach("rendered")

	if badA {
		sa = 2 // documented: Bad nodes are always followed by an empty line
	}
	exp := 0
	ci := c0
	item := func(k int) {
		vfAssert(ci < len(r.comments), "comment-rendered")
		c := r.comments[ci].List[0]
		ci++
		got := vfBreaks(r, mark, prevEnd, c.Slash)
		vfAssert(vfCap2(got) == vfCap2(exp), "C05-rule/comment")
		prevEnd = c.Slash + token.Pos(len(c.Text))
		if k == vfKindLine {
			exp = 1
			fresh = true
		} else {
			exp = 0
			fresh = false
		}
	}
	for _, k := range kA {
		if k == vfKindNewline {
			exp++
			fresh = true
		} else {
			item(k)
		}
	}
	// the sibling boundary: max(After, Before), reduced by one if a break was just emitted
	exp += vfIte(fresh, vfMax0(sa-1), sa)
	fresh = vfOr(fresh, sa > 0)
	exp += vfIte(fresh, vfMax0(sb-1), sb)
	for _, k := range kB {
		if k == vfKindNewline {
			exp++
		} else {
			item(k)
		}
	}
	got := vfBreaks(r, mark, prevEnd, tokB)
	vfAssert(vfCap2(got) == vfCap2(exp), "C05-rule/token")
	vfAssert(ci == len(r.comments), "no-extra-comment")
	vfObserve("tokB", int(tokB))
	vfObserve("lines", len(r.lines))
}

func VerifC05Gap()      { vfC05(false, 1+vfTier(), false) }
func VerifC05GapBad()   { vfC05(true, 1, false) }
func VerifC05Interior() { vfC05(false, 1+vfTier(), true) }

// VerifC05NoDecs is the documented table itself: no decorations, cursor not at a fresh line:
// breaks = max(sa, sb); one blank line iff either side is EmptyLine.
func VerifC05NoDecs() {
	r := vfRestorer()
	vfAssume(r.cursor != r.cursorAtNewLine)
	a, b := &dst.Ident{Name: "a"}, &dst.Ident{Name: "b"}
	sa := vfInt("sa", 0, 2)
	sb := vfInt("sb", 0, 2)
	mark := len(r.lines)
	prevEnd := r.cursor
	r.applySpace(a, "After", dst.SpaceType(sa))
	r.applySpace(b, "Before", dst.SpaceType(sb))
	got := vfBreaks(r, mark, prevEnd, r.cursor)
	vfAssert(vfCap2(got) == vfIte(sa >= sb, sa, sb), "non-additive-max")
	vfAssert(vfCap2(vfBreaksAfter(r, mark, prevEnd, r.cursor)) == vfIte(sa >= sb, sa, sb), "break-behind-previous-end")
	vfAssert((vfCap2(got) == 2) == vfOr(sa == 2, sb == 2), "blank-line-iff-emptyline")
}

// vfLastTokenEnd / vfFirstTokenPos: extent of a restored node according to the real fragmenter.
func vfLastTokenEnd(an ast.Node, def token.Pos) token.Pos {
	end := def
	for _, f := range vfFragments(an) {
		if pos, l, ok := vfFragExtent(f); ok {
			end = pos + token.Pos(l)
		}
	}
	return end
}

func vfFirstTokenPos(an ast.Node, def token.Pos) token.Pos {
	for _, f := range vfFragments(an) {
		if pos, _, ok := vfFragExtent(f); ok {
			return pos
		}
	}
	return def
}

// vfC05Siblings: two adjacent siblings a, b (real nodes restored by the real restoreNode, so that each
// node type's own generated Before/Start/.../End/After sequence is what is checked): a carries forked
// End decorations and After=sa, b carries forked Start decorations and Before=sb.
func vfC05Siblings(r *FileRestorer, a, b dst.Node, kA, kB []int, sa, sb int, bad bool) {
	fresh0 := r.cursor == r.cursorAtNewLine
	mark := len(r.lines)
	c0 := len(r.comments)
	cursor0 := r.cursor
	anA := r.restoreNode(a, "", "", "", false)
	cA := len(r.comments)
	anB := r.restoreNode(b, "", "", "", false)
	vfReach("rendered")
	prevEnd := vfLastTokenEnd(anA, cursor0)
	tokB := vfFirstTokenPos(anB, r.cursor)
	_ = cA
	// a has no Start decorations and Before=None, so freshness at its last token is: fresh0 if it has
	// no tokens at all, else false
	fresh := vfAnd(fresh0, prevEnd == cursor0)
	if bad {
		sa = 2
	}
	exp := 0
	ci := c0
	item := func(k int) {
		vfAssert(ci < len(r.comments), "comment-rendered")
		if ci >= len(r.comments) {
			return
		}
		c := r.comments[ci].List[0]
		ci++
		got := vfBreaks(r, mark, prevEnd, c.Slash)
		vfAssert(vfCap2(got) == vfCap2(exp), "C05-rule/comment")
		prevEnd = c.Slash + token.Pos(len(c.Text))
		if k == vfKindLine {
			exp = 1
			fresh = true
		} else {
			exp = 0
			fresh = false
		}
	}
	for _, k := range kA {
		if k == vfKindNewline {
			exp++
			fresh = true
		} else {
			item(k)
		}
	}
	exp += vfIte(fresh, vfMax0(sa-1), sa)
	fresh = vfOr(fresh, sa > 0)
	exp += vfIte(fresh, vfMax0(sb-1), sb)
	for _, k := range kB {
		if k == vfKindNewline {
			exp++
		} else {
			item(k)
		}
	}
	got := vfBreaks(r, mark, prevEnd, tokB)
	vfAssert(vfCap2(got) == vfCap2(exp), "C05-rule/token")
	if len(kA) == 0 && len(kB) == 0 {
		// spacing only: the breaks lie strictly behind the first sibling's end (see vfBreaksAfter)
		vfAssert(vfCap2(vfBreaksAfter(r, mark, prevEnd, tokB)) == vfCap2(exp), "C05-rule/break-behind-previous-end")
	}
}

func vfKindsOf(d dst.Decorations) []int {
	var ks []int
	for _, s := range d {
		switch {
		case s == "\n":
			ks = append(ks, vfKindNewline)
		case len(s) >= 2 && s[:2] == "//":
			ks = append(ks, vfKindLine)
		default:
			ks = append(ks, vfKindBlock)
		}
	}
	return ks
}

// C05 per node type: the documented sibling rule holds for the generated restore sequence of every
// node type (Before first, then Start decorations ... End decorations, After last).
func vfPerType_C05(typ string) {
	ga := &vfGen{prefix: "a", depth: 1, listLen: 1, maxDecs: 1, decPoint: typ + ".End"}
	gb := &vfGen{prefix: "b", depth: 1, listLen: 1, maxDecs: 1, decPoint: typ + ".Start"}
	if vfTier() == 0 {
		// quick: one of the two siblings carries decorations (thorough: both)
		if vfChoice("which", 2) == 0 {
			gb.decPoint = ""
		} else {
			ga.decPoint = ""
		}
	}
	a := ga.Node(typ)
	b := gb.Node(typ)
	sa := vfInt("sa", 0, 2)
	sb := vfInt("sb", 0, 2)
	a.Decorations().After = dst.SpaceType(sa)
	b.Decorations().Before = dst.SpaceType(sb)
	r := vfRestorerMid()
	bad := typ == "BadDecl" || typ == "BadExpr" || typ == "BadStmt"
	vfC05Siblings(r, a, b, vfKindsOf(a.Decorations().End), vfKindsOf(b.Decorations().Start), sa, sb, bad)
}

// VerifC05Qualified: the same rule for package-qualified identifiers, which an import-managing
// restorer renders through its own special-case code (selector expansion).
func VerifC05Qualified() {
	r := vfRestorerMid()
	calls := 0
	r.Resolver, r.Path = vfResolver{names: map[string]string{"a": "a"}, failAt: -1, calls: &calls}, vfLocal
	r.packageNames["a"] = vfBytes("pkgname", 1, "ab")
	a := &dst.Ident{Name: vfOpaque("a", "A"), Path: "a"}
	b := &dst.Ident{Name: vfOpaque("b", "B"), Path: "a"}
	var kA, kB []int
	a.Decs.End, kA = vfDecorations("dA", 1)
	b.Decs.Start, kB = vfDecorations("dB", 1)
	sa := vfInt("sa", 0, 2)
	sb := vfInt("sb", 0, 2)
	a.Decs.After = dst.SpaceType(sa)
	b.Decs.Before = dst.SpaceType(sb)
	vfC05Siblings(r, a, b, kA, kB, sa, sb, false)
}
