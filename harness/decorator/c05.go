package decorator

import (
	"go/ast"
	"go/token"

	"github.com/dave/dst"
)

// C05: Before/After spacing between two adjacent siblings A and B renders by the documented
// non-additive rule; line comments and "\n" decorations contribute exactly their own break.
//
// The code between the last token of A and the first token of B is exactly what every generated
// restoreNode case runs: applyDecorations(A,End,end=true), applySpace(A,After), applySpace(B,Before),
// applyDecorations(B,Start). It is run from an arbitrary restorer state; the line breaks between
// consecutive positioned items (comments, then B's first token) are read from the real r.lines and
// compared, capped at 2 (one blank line, printer contract PC), with the documented rule.
func vfC05(badA bool, maxDecs int) {
	r := vfRestorer()
	var a dst.Node = &dst.Ident{Name: "a"}
	if badA {
		a = &dst.BadExpr{Length: 1}
	}
	b := &dst.Ident{Name: "b"}
	an, bn := &ast.Ident{}, &ast.Ident{}
	dA, kA := vfDecorations("dA", maxDecs)
	dB, kB := vfDecorations("dB", maxDecs)
	sa := vfInt("sa", 0, 2)
	sb := vfInt("sb", 0, 2)
	fresh := r.cursor == r.cursorAtNewLine
	mark := len(r.lines)
	c0 := len(r.comments)
	prevEnd := r.cursor

	r.applyDecorations(an, "End", dA, true)
	r.applySpace(a, "After", dst.SpaceType(sa))
	r.applySpace(b, "Before", dst.SpaceType(sb))
	r.applyDecorations(bn, "Start", dB, false)
	tokB := r.cursor
	vfReach("rendered")

	if badA {
		sa = 2 // documented: Bad nodes are always followed by an empty line
	}
	exp := 0
	ci := c0
	item := func(k int) {
		vfAssert(ci < len(r.comments), "comment-rendered")
		c := r.comments[ci].List[0]
		ci++
		got := vfBreaks(r, mark, prevEnd, c.Slash)
		vfAssert(vfCap2(got) == vfCap2(exp), "C05-rule/comment")
		prevEnd = c.Slash + token.Pos(len(c.Text))
		if k == vfKindLine {
			exp = 1
			fresh = true
		} else {
			exp = 0
			fresh = false
		}
	}
	for _, k := range kA {
		if k == vfKindNewline {
			exp++
			fresh = true
		} else {
			item(k)
		}
	}
	// the sibling boundary: max(After, Before), reduced by one if a break was just emitted
	exp += vfIte(fresh, vfMax0(sa-1), sa)
	fresh = vfOr(fresh, sa > 0)
	exp += vfIte(fresh, vfMax0(sb-1), sb)
	for _, k := range kB {
		if k == vfKindNewline {
			exp++
		} else {
			item(k)
		}
	}
	got := vfBreaks(r, mark, prevEnd, tokB)
	vfAssert(vfCap2(got) == vfCap2(exp), "C05-rule/token")
	vfAssert(ci == len(r.comments), "no-extra-comment")
	vfObserve("tokB", int(tokB))
	vfObserve("lines", len(r.lines))
}

func VerifC05Gap()    { vfC05(false, 1+vfTier()) }
func VerifC05GapBad() { vfC05(true, 1) }

// VerifC05NoDecs is the documented table itself: no decorations, cursor not at a fresh line:
// breaks = max(sa, sb); one blank line iff either side is EmptyLine.
func VerifC05NoDecs() {
	r := vfRestorer()
	vfAssume(r.cursor != r.cursorAtNewLine)
	a, b := &dst.Ident{Name: "a"}, &dst.Ident{Name: "b"}
	sa := vfInt("sa", 0, 2)
	sb := vfInt("sb", 0, 2)
	mark := len(r.lines)
	prevEnd := r.cursor
	r.applySpace(a, "After", dst.SpaceType(sa))
	r.applySpace(b, "Before", dst.SpaceType(sb))
	got := vfBreaks(r, mark, prevEnd, r.cursor)
	vfAssert(vfCap2(got) == vfIte(sa >= sb, sa, sb), "non-additive-max")
	vfAssert((vfCap2(got) == 2) == vfOr(sa == 2, sb == 2), "blank-line-iff-emptyline")
}
