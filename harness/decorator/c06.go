package decorator

import (
	"go/ast"
	"go/token"

	"github.com/dave/dst"
)

func vfCopyRestorer(r *FileRestorer) *FileRestorer {
	c := &FileRestorer{Restorer: NewRestorer(), Alias: map[string]string{}}
	c.nodeDecl = map[*ast.Object]dst.Node{}
	c.nodeData = map[*ast.Object]dst.Node{}
	c.packageNames = map[string]string{}
	c.comments = []*ast.CommentGroup{}
	c.base = r.base
	c.cursor = r.cursor
	c.cursorAtNewLine = r.cursorAtNewLine
	c.lines = append([]int{}, r.lines...)
	return c
}

// C06 (1)+(2): for every node type, Clone of a generic instance (decorated on every point, children
// one level deep, lists with spare capacity) shares no storage with the original, and restoring the
// original and the clone from the same arbitrary restorer state gives structurally equal asts, equal
// line tables, equal comments and an equal cursor: whatever printing consults was copied.
func vfPerType_C06(typ string) {
	g := &vfGen{prefix: "n", depth: 1, listLen: 1, spare: 1, decPoint: "*", spaces: true, symFlags: true}
	switch vfChoice("shape", 3) {
	case 1:
		g.nilField = "*"
		g.listLen = 0
	case 2:
		g.listLen = 2
		g.spare = 0
	}
	n := g.Node(typ)
	c := dst.Clone(n)
	vfReach("cloned")
	vfAssert(vfTypeName(c) == vfTypeName(n), "same-type")
	vfAssert(vfNoAlias(n, c), "no-shared-storage")

	r1 := vfRestorer()
	r2 := vfCopyRestorer(r1)
	a1 := r1.restoreNode(n, "", "", "", false)
	a2 := r2.restoreNode(c, "", "", "", false)
	vfReach("restored")
	vfAssert(r1.cursor == r2.cursor, "prints-identically/cursor")
	vfAssert(vfDeepEqual(r1.lines, r2.lines), "prints-identically/lines")
	vfAssert(vfDeepEqual(r1.comments, r2.comments), "prints-identically/comments")
	vfAssert(vfDeepEqual(a1, a2), "prints-identically/ast")
	vfObserve("cursor", int(r1.cursor))
	vfObserve("lines", len(r1.lines))
	vfObserve("comments", len(r1.comments))
}

// C06 (1b): mutation independence, checked behaviourally: after cloning, every decoration list, list
// field and scalar of the clone is overwritten; the original must still restore to what it restored to
// before. (Storage that is shared would show through.)
func vfPerType_C06Mut(typ string) {
	g := &vfGen{prefix: "n", depth: 1, listLen: 2, spare: 1, decPoint: "*", spaces: true, symFlags: true}
	n := g.Node(typ)
	r0 := vfRestorer()
	r1 := vfCopyRestorer(r0)
	a0 := r0.restoreNode(n, "", "", "", false)
	c := dst.Clone(n)
	// scribble over everything reachable from the clone
	dst.Inspect(c, func(x dst.Node) bool {
		if x == nil {
			return true
		}
		if d := x.Decorations(); d != nil {
			for i := range d.Start {
				d.Start[i] = "/*scribble*/"
			}
			for i := range d.End {
				d.End[i] = "/*scribble*/"
			}
			d.Start.Append("/*more*/")
			d.End.Append("/*more*/")
			d.Before, d.After = dst.EmptyLine, dst.EmptyLine
		}
		if id, ok := x.(*dst.Ident); ok {
			id.Name = "scribbled"
		}
		return true
	})
	a1 := r1.restoreNode(n, "", "", "", false)
	vfAssert(r0.cursor == r1.cursor, "original-unchanged/cursor")
	vfAssert(vfDeepEqual(r0.lines, r1.lines), "original-unchanged/lines")
	vfAssert(vfDeepEqual(r0.comments, r1.comments), "original-unchanged/comments")
	vfAssert(vfDeepEqual(a0, a1), "original-unchanged/ast")
}

// C06 (3): a node occurring at two places is rejected with a panic at restore time; with Clone at
// the second place both occurrences are restored.
func VerifC06Shared() {
	id := &dst.Ident{Name: vfOpaque("x", "x")}
	st := &dst.ExprStmt{X: &dst.CallExpr{Fun: &dst.Ident{Name: "f"}}}
	fld := &dst.Field{Names: []*dst.Ident{{Name: "a"}}, Type: &dst.Ident{Name: "int"}}
	var first, second dst.Node
	var mk func(second dst.Node) dst.Node
	qualified := false
	switch vfChoice("shape", 7) {
	case 6: // a package-qualified identifier (restored as a selector by an import-managing restorer)
		qualified = true
		qid := &dst.Ident{Name: vfOpaque("q", "Q"), Path: "a"}
		first = qid
		mk = func(s dst.Node) dst.Node { return &dst.BinaryExpr{X: qid, Op: 12, Y: s.(dst.Expr)} }
	case 0: // same expression as both operands
		first = id
		mk = func(s dst.Node) dst.Node { return &dst.BinaryExpr{X: id, Op: 12, Y: s.(dst.Expr)} }
	case 1: // same statement twice in a block
		first = st
		mk = func(s dst.Node) dst.Node { return &dst.BlockStmt{List: []dst.Stmt{st, s.(dst.Stmt)}} }
	case 2: // same argument twice
		first = id
		mk = func(s dst.Node) dst.Node {
			return &dst.CallExpr{Fun: &dst.Ident{Name: "f"}, Args: []dst.Expr{id, s.(dst.Expr)}}
		}
	case 3: // same field in params and results
		first = fld
		mk = func(s dst.Node) dst.Node {
			return &dst.FuncType{Func: true, Params: &dst.FieldList{Opening: true, Closing: true, List: []*dst.Field{fld}},
				Results: &dst.FieldList{Opening: true, Closing: true, List: []*dst.Field{s.(*dst.Field)}}}
		}
	case 4: // a nested node shared between two different parents (deep position)
		first = id
		mk = func(s dst.Node) dst.Node {
			return &dst.BlockStmt{List: []dst.Stmt{&dst.ExprStmt{X: id}, &dst.ReturnStmt{Results: []dst.Expr{&dst.ParenExpr{X: s.(dst.Expr)}}}}}
		}
	default: // the parent itself reused as its own grandchild's sibling: statement in two blocks
		first = st
		mk = func(s dst.Node) dst.Node {
			return &dst.IfStmt{Cond: &dst.Ident{Name: "c"}, Body: &dst.BlockStmt{List: []dst.Stmt{st}}, Else: &dst.BlockStmt{List: []dst.Stmt{s.(dst.Stmt)}}}
		}
	}
	second = first
	shared := mk(second)
	r := vfRestorer()
	if qualified {
		calls := 0
		r.Resolver, r.Path = vfResolver{names: map[string]string{"a": "a"}, failAt: -1, calls: &calls}, vfLocal
		r.packageNames["a"] = vfBytes("pkgname", 1, "ab")
	}
	vfAssert(vfExpectPanic(func() { r.restoreNode(shared, "", "", "", false) }), "shared-node-rejected")

	cl := dst.Clone(first)
	ok := mk(cl)
	r2 := vfRestorer()
	if qualified {
		r2.Resolver, r2.Path = r.Resolver, vfLocal
		r2.packageNames["a"] = "a"
	}
	panicked := vfExpectPanic(func() { r2.restoreNode(ok, "", "", "", false) })
	vfAssert(!panicked, "cloned-node-accepted")
	_, has1 := r2.Ast.Nodes[first]
	_, has2 := r2.Ast.Nodes[cl]
	vfAssert(has1, "both-rendered/first")
	vfAssert(has2, "both-rendered/second")
	vfAssert(r2.Ast.Nodes[first] != r2.Ast.Nodes[cl], "both-rendered/distinct")
}

// VerifC06Links: Clone drops object and scope links (identifier objects with and without a declaring
// node, file scopes, package scope and import objects).
func VerifC06Links() {
	decl := &dst.ValueSpec{Names: []*dst.Ident{{Name: "v"}}}
	var obj *dst.Object
	if vfChoice("objdecl", 2) == 0 {
		obj = dst.NewObj(dst.Var, "v") // no declaring node (e.g. a universe object or one made by hand)
	} else {
		obj = &dst.Object{Kind: dst.Var, Name: "v", Decl: decl}
	}
	id := &dst.Ident{Name: "v", Obj: obj}
	c := dst.Clone(id).(*dst.Ident)
	vfAssert(c.Obj == nil, "clone-drops-object-link")
	sc := dst.NewScope(nil)
	sc.Insert(obj)
	f := &dst.File{Name: &dst.Ident{Name: "p"}, Scope: sc, Decls: []dst.Decl{&dst.GenDecl{Tok: token.VAR, Specs: []dst.Spec{&dst.ValueSpec{Names: []*dst.Ident{id}}}}}}
	cf := dst.Clone(f).(*dst.File)
	vfAssert(cf.Scope == nil, "clone-drops-scope-link")
	vfAssert(cf.Decls[0].(*dst.GenDecl).Specs[0].(*dst.ValueSpec).Names[0].Obj == nil, "clone-drops-object-link")
	pkg := &dst.Package{Name: "p", Scope: sc, Imports: map[string]*dst.Object{"lib": dst.NewObj(dst.Pkg, "lib")}, Files: map[string]*dst.File{"a.go": f}}
	cp := dst.Clone(pkg).(*dst.Package)
	vfAssert(cp.Scope == nil, "clone-drops-scope-link")
	for _, o := range cp.Imports {
		vfAssert(o == nil, "clone-drops-object-link")
	}
	vfAssert(vfNoAlias(pkg, cp), "no-shared-storage")
}

// VerifC06SharedFile: the rejection of a shared node also holds at the public RestoreFile level, with
// and without Extras.
func VerifC06SharedFile() {
	shared := &dst.Ident{Name: "x"}
	mk := func(e dst.Expr) dst.Decl {
		return &dst.GenDecl{Tok: token.VAR, Specs: []dst.Spec{&dst.ValueSpec{Names: []*dst.Ident{{Name: "_"}}, Values: []dst.Expr{e}}}}
	}
	f := &dst.File{Name: &dst.Ident{Name: "p"}, Decls: []dst.Decl{mk(shared), mk(shared)}}
	res := NewRestorer()
	res.Extras = vfChoice("extras", 2) == 1
	vfAssert(vfExpectPanic(func() { res.RestoreFile(f) }), "shared-node-rejected-by-restorefile")
	g := &dst.File{Name: &dst.Ident{Name: "p"}, Decls: []dst.Decl{mk(shared), mk(dst.Clone(shared).(*dst.Ident))}}
	res2 := NewRestorer()
	res2.Extras = res.Extras
	vfAssert(!vfExpectPanic(func() { res2.RestoreFile(g) }), "cloned-node-accepted-by-restorefile")
}
