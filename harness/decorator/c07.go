package decorator

import (
	"errors"
	"go/ast"
	"go/token"
	"strconv"

	"github.com/dave/dst"
	"github.com/dave/dst/decorator/resolver"
	"github.com/dave/dst/decorator/resolver/goast"
	"github.com/dave/dst/decorator/resolver/guess"
	"github.com/dave/dst/decorator/resolver/simple"
)

// ---- shared: symbolic import situations --------------------------------------------------------

// Package paths come from a small concrete pool (so that map keys are concrete and the relations
// "same path / local path / dotted path / path with slash" are chosen by forking); package names,
// aliases and alias overrides are symbolic one-byte strings, so that name conflicts are decided by
// the solver.
var vfPool = []string{"a", "x.y/b", "c/d"}

const vfLocal = "local/pkg"

type vfResolver struct {
	names  map[string]string
	failAt int // index of the call that fails (-1: never)
	calls  *int
	err    error
}

func (v vfResolver) ResolvePackage(path string) (string, error) {
	k := *v.calls
	*v.calls = k + 1
	if k == v.failAt {
		return "", v.err
	}
	if n, ok := v.names[path]; ok {
		return n, nil
	}
	return "", errors.New("unknown package")
}

func vfNames() map[string]string {
	m := map[string]string{}
	for i, p := range vfPool {
		m[p] = vfBytes("name"+strconv.Itoa(i), 1, "pq")
	}
	return m
}

type vfSpecDesc struct {
	path string
	kind int // 0 none, 1 alias, 2 ".", 3 "_"
	name string
}

func vfImportSpec(tag string, allowC bool) (*dst.ImportSpec, vfSpecDesc) {
	n := len(vfPool)
	if allowC {
		n++
	}
	pi := vfChoice(tag+".path", n)
	d := vfSpecDesc{}
	if pi < len(vfPool) {
		d.path = vfPool[pi]
	} else {
		d.path = "C"
	}
	s := &dst.ImportSpec{Path: &dst.BasicLit{Kind: token.STRING, Value: strconv.Quote(d.path)}}
	if vfChoice(tag+".raw", 2) == 1 {
		s.Path.Value = "`" + d.path + "`" // import path written as a raw string literal
	}
	if d.path != "C" {
		d.kind = vfChoice(tag+".kind", 4)
	}
	switch d.kind {
	case 1:
		d.name = vfBytes(tag+".alias", 1, "pqr")
	case 2:
		d.name = "."
	case 3:
		d.name = "_"
	}
	if d.kind != 0 {
		s.Name = &dst.Ident{Name: d.name}
	}
	// a commented, spaced spec so that "decorations kept" is observable
	s.Decs.End.Append(vfOpaque(tag+".c", "//"))
	s.Decs.Before = dst.NewLine
	s.Decs.After = dst.NewLine
	return s, d
}

func vfIdentWithPath(tag string) *dst.Ident {
	id := &dst.Ident{Name: vfOpaque(tag, "N")}
	k := vfChoice(tag+".path", len(vfPool)+2)
	switch {
	case k < len(vfPool):
		id.Path = vfPool[k]
	case k == len(vfPool):
		id.Path = vfLocal
	}
	return id
}

func vfFileWith(specs []dst.Spec, idents []*dst.Ident) *dst.File {
	f := &dst.File{Name: &dst.Ident{Name: "pkg"}}
	if len(specs) > 0 {
		gd := &dst.GenDecl{Tok: token.IMPORT, Specs: specs, Lparen: len(specs) > 1, Rparen: len(specs) > 1}
		gd.Decs.Before = dst.EmptyLine
		gd.Decs.After = dst.EmptyLine
		gd.Decs.Start.Append("// imports")
		f.Decls = append(f.Decls, gd)
	}
	var vals []dst.Expr
	var names []*dst.Ident
	for _, id := range idents {
		vals = append(vals, id)
		names = append(names, &dst.Ident{Name: "_"})
	}
	if len(vals) > 0 {
		f.Decls = append(f.Decls, &dst.GenDecl{Tok: token.VAR, Specs: []dst.Spec{&dst.ValueSpec{Names: names, Values: vals}}})
	}
	return f
}

type vfRestoredSpec struct {
	path string
	name string // "" if the spec has no name
	has  bool
}

func vfRestoredImports(af *ast.File) []vfRestoredSpec {
	var out []vfRestoredSpec
	for _, d := range af.Decls {
		gd, ok := d.(*ast.GenDecl)
		if !ok || gd.Tok != token.IMPORT {
			continue
		}
		for _, s := range gd.Specs {
			is := s.(*ast.ImportSpec)
			p, _ := strconv.Unquote(is.Path.Value)
			rs := vfRestoredSpec{path: p}
			if is.Name != nil {
				rs.name, rs.has = is.Name.Name, true
			}
			out = append(out, rs)
		}
	}
	return out
}

// C07: import-managed restore. One import block with 0-2 specs over distinct paths (name kinds: none,
// symbolic alias, ".", "_"; optionally a cgo spec), 1-2 (thorough: 3) identifiers with path in
// {"", local, pool}, an optional alias override for one pool path. Checked on the restored ast.
func VerifC07() {
	names := vfNames()
	nspec := vfChoice("nspec", 3)
	var specs []dst.Spec
	var descs []vfSpecDesc
	for i := 0; i < nspec; i++ {
		s, d := vfImportSpec("spec"+strconv.Itoa(i), i == 0)
		for _, e := range descs {
			vfAssume(e.path != d.path) // duplicate paths: see VerifC07Dup
		}
		specs = append(specs, s)
		descs = append(descs, d)
	}
	// with two source specs only one identifier and no override (the full product does not fit any
	// budget: it was tried in the thorough tier and stopped at its time limit)
	small := nspec == 2
	nid := 1
	if !small {
		nid = 1 + vfChoice("nid", 2+vfTier())
	}
	var idents []*dst.Ident
	for i := 0; i < nid; i++ {
		idents = append(idents, vfIdentWithPath("id"+strconv.Itoa(i)))
	}
	file := vfFileWith(specs, idents)

	calls := 0
	res := NewRestorerWithImports(vfLocal, vfResolver{names: names, failAt: -1, calls: &calls})
	fr := res.FileRestorer()
	overridePath, override := "", ""
	if small {
	} else if k := vfChoice("override", len(vfPool)+1); k < len(vfPool) {
		overridePath = vfPool[k]
		override = vfBytes("overrideAlias", 1, "pqs")
		fr.Alias[overridePath] = override
	}
	af, err := fr.RestoreFile(file)
	vfAssert(err == nil, "no-error")
	if err != nil {
		return
	}
	vfReach("restored")
	imps := vfRestoredImports(af)

	used := map[string]bool{}
	for _, id := range idents {
		if id.Path != "" && id.Path != vfLocal {
			used[id.Path] = true
		}
	}
	srcKind := map[string]int{}
	srcName := map[string]string{}
	inSrc := map[string]bool{}
	for _, d := range descs {
		srcKind[d.path], srcName[d.path], inSrc[d.path] = d.kind, d.name, true
	}

	// (3) the import declarations contain each referenced path exactly once plus blank and cgo imports
	for _, p := range append(append([]string{}, vfPool...), "C") {
		cnt := 0
		for _, s := range imps {
			if s.path == p {
				cnt++
			}
		}
		switch {
		case used[p]:
			vfAssert(cnt == 1, "used-path-imported-once")
		case p == "C":
			vfAssert(cnt == vfB2I(inSrc["C"]), "cgo-import-kept")
		case inSrc[p] && srcKind[p] == 3 && overridePath != p:
			vfAssert(cnt == 1, "blank-import-kept")
		case !inSrc[p] && overridePath != p:
			vfAssert(cnt == 0, "nothing-else-imported")
		case inSrc[p] && srcKind[p] != 3 && overridePath != p:
			vfAssert(cnt == 0, "unused-import-removed")
		}
	}

	// name bound by each restored spec
	bound := map[string]string{}
	for _, s := range imps {
		if s.has {
			bound[s.path] = s.name
		} else {
			bound[s.path] = names[s.path]
		}
	}

	// (1)(2) every identifier is bound to its package
	for _, id := range idents {
		an := res.Ast.Nodes[id]
		if id.Path == "" || id.Path == vfLocal {
			_, bare := an.(*ast.Ident)
			vfAssert(bare, "local-ident-bare")
			continue
		}
		b, ok := bound[id.Path]
		vfAssert(ok, "referenced-path-has-import")
		if !ok {
			continue
		}
		switch x := an.(type) {
		case *ast.SelectorExpr:
			vfAssert(b != "." && b != "_", "selector-needs-named-import")
			vfAssert(x.X.(*ast.Ident).Name == b, "selector-uses-bound-name")
			vfAssert(x.Sel.Name == id.Name, "selector-keeps-name")
		case *ast.Ident:
			vfAssert(b == ".", "bare-only-under-dot-import")
		default:
			vfAssert(false, "ident-restored-to-ident-or-selector")
		}
	}

	// (4) names bound by ordinary imports are pairwise distinct
	for i := range imps {
		for j := i + 1; j < len(imps); j++ {
			bi, bj := bound[imps[i].path], bound[imps[j].path]
			ordinary := bi != "." && bi != "_" && bj != "." && bj != "_" && imps[i].path != "C" && imps[j].path != "C"
			if ordinary {
				vfAssert(bi != bj, "ordinary-import-names-distinct")
			}
		}
	}

	// (5) precedence: override > source alias > resolved name (when nobody else binds that name)
	for _, s := range imps {
		if s.path == "C" || !used[s.path] {
			continue
		}
		want := names[s.path]
		if inSrc[s.path] && srcKind[s.path] == 1 {
			want = srcName[s.path]
		}
		if inSrc[s.path] && srcKind[s.path] == 2 {
			want = "."
		}
		if overridePath == s.path {
			want = override
		}
		others := false
		for _, o := range imps {
			if o.path != s.path && o.path != "C" {
				others = vfOr(others, bound[o.path] == want)
			}
		}
		vfAssert(vfImplies(!others, bound[s.path] == want), "alias-precedence")
	}
}

// VerifC07Dup: the same path imported twice under two different names (legal Go), both names used.
// After restore the file must still import the path (at least once) and must not bind one name twice.
func VerifC07Dup() {
	names := vfNames()
	p := vfPool[vfChoice("path", len(vfPool))]
	s1 := &dst.ImportSpec{Name: &dst.Ident{Name: "p"}, Path: &dst.BasicLit{Kind: token.STRING, Value: strconv.Quote(p)}}
	s2 := &dst.ImportSpec{Name: &dst.Ident{Name: "q"}, Path: &dst.BasicLit{Kind: token.STRING, Value: strconv.Quote(p)}}
	id := &dst.Ident{Name: "N", Path: p}
	file := vfFileWith([]dst.Spec{s1, s2}, []*dst.Ident{id})
	if vfChoice("twoDecls", 2) == 1 {
		// the two specs stand in two import declarations
		gd := file.Decls[0].(*dst.GenDecl)
		gd.Specs, gd.Lparen, gd.Rparen = []dst.Spec{s1}, false, false
		gd2 := &dst.GenDecl{Tok: token.IMPORT, Specs: []dst.Spec{s2}}
		gd2.Decs.Before, gd2.Decs.After = dst.EmptyLine, dst.EmptyLine
		file.Decls = append([]dst.Decl{gd, gd2}, file.Decls[1:]...)
	}
	calls := 0
	res := NewRestorerWithImports(vfLocal, vfResolver{names: names, failAt: -1, calls: &calls})
	af, err := res.RestoreFile(file)
	vfAssert(err == nil, "no-error")
	if err != nil {
		return
	}
	imps := vfRestoredImports(af)
	cnt := 0
	for _, s := range imps {
		if s.path == p {
			cnt++
		}
	}
	vfAssert(cnt == 1, "dup/path-imported-once")
	for i := range imps {
		for j := i + 1; j < len(imps); j++ {
			if imps[i].has && imps[j].has {
				vfAssert(imps[i].name != imps[j].name, "dup/no-name-bound-twice")
			}
		}
	}
}

// ---- C08 (2): a no-op import update leaves the import declarations untouched ----------------------

// The source already imports exactly what it uses (every used pool path is imported under a name
// that does not collide; unused paths are only blank-imported), the resolver is accurate: after
// updateImports every import declaration, spec, alias, decoration and spacing is unchanged.
func VerifC08NoOp() {
	names := vfNames()
	nspec := 1 + vfChoice("nspec", 2)
	var specs []dst.Spec
	var descs []vfSpecDesc
	var idents []*dst.Ident
	for i := 0; i < nspec; i++ {
		s, d := vfImportSpec("spec"+strconv.Itoa(i), i == 0)
		for _, e := range descs {
			vfAssume(e.path != d.path)
			// effective names must not collide (otherwise the restorer legitimately renames)
			if e.kind != 3 && d.kind != 3 && e.kind != 2 && d.kind != 2 && e.path != "C" && d.path != "C" {
				en, dn := e.name, d.name
				if e.kind == 0 {
					en = names[e.path]
				}
				if d.kind == 0 {
					dn = names[d.path]
				}
				vfAssume(en != dn)
			}
		}
		specs = append(specs, s)
		descs = append(descs, d)
		if d.path != "C" && d.kind != 3 {
			idents = append(idents, &dst.Ident{Name: vfOpaque("use"+strconv.Itoa(i), "N"), Path: d.path})
		}
	}
	file := vfFileWith(specs, idents)
	before := dst.Clone(file).(*dst.File)
	calls := 0
	res := NewRestorerWithImports(vfLocal, vfResolver{names: names, failAt: -1, calls: &calls})
	fr := res.FileRestorer()
	fr.file = file
	fr.packageNames = map[string]string{}
	err := fr.updateImports()
	vfAssert(err == nil, "no-error")
	vfReach("updated")
	vfAssert(len(file.Decls) == len(before.Decls), "decls-unchanged")
	vfAssert(vfDeepEqual(file.Decls[0], before.Decls[0]), "import-block-unchanged")
	for _, d := range descs {
		if d.path == "C" || d.kind == 3 {
			continue
		}
		want := d.name
		if d.kind == 0 {
			want = names[d.path]
		}
		if d.kind == 2 {
			want = ""
		}
		vfAssert(fr.packageNames[d.path] == want, "package-name-is-source-name")
	}
}

// VerifC08Reuse: one FileRestorer value restores two files one after the other (Restorer.FileRestorer()
// is the documented way to set per-file options). The first file has an aliased / blank / dot import
// (forked, alias symbolic); the second file imports the same path its own way and uses it. What the
// first file needed must not leak into the second: its import block stays deeply equal, and the
// user-facing Alias map is not written by RestoreFile.
func VerifC08Reuse() {
	names := vfNames()
	s1, d1 := vfImportSpec("first", false)
	vfAssume(d1.kind != 0)
	var ids1 []*dst.Ident
	if d1.kind == 1 {
		ids1 = append(ids1, &dst.Ident{Name: "N", Path: d1.path})
	}
	f1 := vfFileWith([]dst.Spec{s1}, ids1)
	// second file: the same path imported plainly and used, or not imported at all (and not used)
	var f2 *dst.File
	if vfChoice("secondImports", 2) == 1 {
		s2 := &dst.ImportSpec{Path: &dst.BasicLit{Kind: token.STRING, Value: strconv.Quote(d1.path)}}
		f2 = vfFileWith([]dst.Spec{s2}, []*dst.Ident{{Name: "M", Path: d1.path}})
	} else {
		other := vfPool[0]
		if other == d1.path {
			other = vfPool[1]
		}
		s2 := &dst.ImportSpec{Path: &dst.BasicLit{Kind: token.STRING, Value: strconv.Quote(other)}}
		f2 = vfFileWith([]dst.Spec{s2}, []*dst.Ident{{Name: "M", Path: other}})
	}
	before2 := dst.Clone(f2).(*dst.File)
	calls := 0
	fr := NewRestorerWithImports(vfLocal, vfResolver{names: names, failAt: -1, calls: &calls}).FileRestorer()
	_, err1 := fr.RestoreFile(f1)
	vfAssert(err1 == nil, "first-restore-ok")
	vfAssert(len(fr.Alias) == 0, "alias-option-not-written-by-restore")
	_, err2 := fr.RestoreFile(f2)
	vfAssert(err2 == nil, "second-restore-ok")
	vfReach("restored-both")
	vfAssert(len(f2.Decls) == len(before2.Decls), "second-file-decls-unchanged")
	vfAssert(vfDeepEqual(f2.Decls[0], before2.Decls[0]), "second-file-import-block-unchanged")
	vfAssert(len(fr.Alias) == 0, "alias-option-not-written-by-restore")
}

// VerifC08ExternalTest: the decorated package is the external test package of the package it imports
// (Decorator path "x.y/a_test" importing "x.y/a", as every foo_test package does): qualified identifiers
// still get the imported path, and an unedited restore keeps the import declaration as it was.
func VerifC08ExternalTest() {
	n := 1 + vfChoice("nsel", 2)
	af, fset := vfSelectorFile(n)
	calls := 0
	local := "x.y/a_test"
	if vfChoice("plainLocal", 2) == 1 {
		local = vfLocal
	}
	d := NewDecoratorWithImports(fset, local, vfIdentResolver{failAt: -1, calls: &calls})
	file, err := d.DecorateFile(af)
	vfAssert(err == nil, "decorate-ok")
	if err != nil {
		return
	}
	found := 0
	dst.Inspect(file, func(x dst.Node) bool {
		if id, ok := x.(*dst.Ident); ok && len(id.Name) == 2 && id.Name[0] == 'N' {
			found++
			vfAssert(id.Path == "x.y/a", "qualified-identifier-carries-the-imported-path")
		}
		return true
	})
	vfAssert(found == n, "every-qualified-identifier-collapsed")
	before := dst.Clone(file).(*dst.File)
	rcalls := 0
	res := NewRestorerWithImports(local, vfResolver{names: map[string]string{"x.y/a": "a"}, failAt: -1, calls: &rcalls})
	_, rerr := res.RestoreFile(file)
	vfAssert(rerr == nil, "restore-ok")
	vfAssert(len(file.Decls) == len(before.Decls), "decls-unchanged")
	vfAssert(vfDeepEqual(file.Decls[0], before.Decls[0]), "import-block-unchanged")
}

// VerifC07ShippedResolvers: the package-name resolvers shipped with dst (guess, simple) against their
// documentation - a name given in the map wins for every path (with or without slash), otherwise guess
// answers the last path element and simple answers ErrPackageNotFound - and end to end: a reference to
// a slash-less path whose mapped name (symbolic) differs from the path is written as name.N under a plain
// import of the path.
func VerifC07ShippedResolvers() {
	n1, n2 := vfBytes("name1", 1, "pqr"), vfBytes("name2", 1, "pqr")
	m := map[string]string{"mylib": n1, "x.y/b": n2}
	paths := []string{"mylib", "x.y/b", "c/d", "e", "x.y/go-f"}
	want := []string{n1, n2, "d", "e", "go-f"}
	k := vfChoice("path", len(paths))
	g, gerr := guess.WithMap(m).ResolvePackage(paths[k])
	vfAssert(gerr == nil && g == want[k], "guess-resolver-map-first-then-last-element")
	sn, serr := simple.New(m).ResolvePackage(paths[k])
	if k < 2 {
		vfAssert(serr == nil && sn == want[k], "simple-resolver-answers-from-the-map")
	} else {
		vfAssert(serr != nil, "simple-resolver-reports-unknown-packages")
	}
	if k >= 2 {
		return
	}
	var res resolver.RestorerResolver = guess.WithMap(m)
	if vfChoice("simple", 2) == 1 {
		res = simple.New(m)
	}
	id := &dst.Ident{Name: "N", Path: paths[k]}
	file := vfFileWith(nil, []*dst.Ident{id})
	r := NewRestorerWithImports(vfLocal, res)
	af, err := r.RestoreFile(file)
	vfAssert(err == nil, "restore-ok")
	if err != nil {
		return
	}
	sel, isSel := r.Ast.Nodes[id].(*ast.SelectorExpr)
	vfAssert(isSel, "reference-is-qualified")
	if isSel {
		x, _ := sel.X.(*ast.Ident)
		vfAssert(x != nil && x.Name == want[k], "selector-uses-the-mapped-package-name")
	}
	imps := vfRestoredImports(af)
	vfAssert(len(imps) == 1 && imps[0].path == paths[k] && !imps[0].has, "plain-import-of-the-path")
}

// ---- C17: resolver failure during restore ---------------------------------------------------------

// The package-name resolver fails at its k-th call (k symbolic over all call positions): RestoreFile
// returns an error wrapping the injected one, returns no ast, does not panic, and leaves the input
// tree deeply equal to what it was; a fresh restorer with a working resolver then produces the same
// ast as if no failure had happened.
func VerifC17Restore() {
	names := vfNames()
	nspec := vfChoice("nspec", 2)
	var specs []dst.Spec
	for i := 0; i < nspec; i++ {
		s, _ := vfImportSpec("spec"+strconv.Itoa(i), false)
		specs = append(specs, s)
	}
	nid := 1 + vfChoice("nid", 2+vfTier())
	var idents []*dst.Ident
	for i := 0; i < nid; i++ {
		idents = append(idents, vfIdentWithPath("id"+strconv.Itoa(i)))
	}
	file := vfFileWith(specs, idents)
	reference := dst.Clone(file).(*dst.File)
	snapshot := dst.Clone(file).(*dst.File)

	// reference run without failure
	c0 := 0
	r0 := NewRestorerWithImports(vfLocal, vfResolver{names: names, failAt: -1, calls: &c0})
	want, err0 := r0.RestoreFile(reference)
	vfAssert(err0 == nil, "reference-run-ok")
	if c0 == 0 {
		return // resolver never consulted: nothing to inject
	}
	injected := errors.New("injected")
	k := vfChoice("failAt", c0)
	c1 := 0
	r1 := NewRestorerWithImports(vfLocal, vfResolver{names: names, failAt: k, calls: &c1, err: injected})
	var got *ast.File
	var err error
	panicked := vfExpectPanic(func() { got, err = r1.RestoreFile(file) })
	vfReach("failed-run")
	vfAssert(!panicked, "failure-does-not-panic")
	vfAssert(err != nil, "failure-returns-error")
	vfAssert(got == nil, "failure-returns-no-ast")
	if err != nil {
		vfAssert(errors.Is(err, injected), "error-wraps-injected")
	}
	vfAssert(vfDeepEqual(file, snapshot), "input-tree-unmodified")

	// retry with a fresh restorer and a working resolver
	c2 := 0
	r2 := NewRestorerWithImports(vfLocal, vfResolver{names: names, failAt: -1, calls: &c2})
	again, err2 := r2.RestoreFile(file)
	vfAssert(err2 == nil, "retry-ok")
	if err2 == nil {
		vfAssert(vfDeepEqual(again, want), "retry-equals-failure-free-run")
	}
}

// ---- C17: identifier-resolver failure during decoration ---------------------------------------------

type vfIdentResolver struct {
	failAt int
	calls  *int
	err    error
	pkgs   map[string]string // package name in the source -> path (nil: only "a" -> "x.y/a")
}

func (v vfIdentResolver) ResolveIdent(file *ast.File, parent ast.Node, parentField string, id *ast.Ident) (string, error) {
	k := *v.calls
	*v.calls = k + 1
	if k == v.failAt {
		return "", v.err
	}
	if se, ok := parent.(*ast.SelectorExpr); ok && parentField == "Sel" {
		if x, ok := se.X.(*ast.Ident); ok {
			if v.pkgs != nil {
				return v.pkgs[x.Name], nil
			}
			if x.Name == "a" {
				return "x.y/a", nil
			}
		}
	}
	return "", nil
}

// vfSelectorFile builds (by restoring a small dst file) a positioned ast file
//   import "x.y/a"; var u = v0; var v0 = a.N0; var v1 = a.N1 ...; var _ = local
// with parser-style objects: every v_i has an ast.Object whose Decl is its ValueSpec, and u's value
// refers to v0 before its declaration, so that decorating u's value decorates v0's declaration through
// the object link first.
func vfSelectorFile(n int) (*ast.File, *token.FileSet) {
	fwd := &dst.Ident{Name: "v0"}
	decls := []dst.Decl{
		&dst.GenDecl{Tok: token.IMPORT, Specs: []dst.Spec{&dst.ImportSpec{Path: &dst.BasicLit{Kind: token.STRING, Value: "\"x.y/a\""}}}},
		&dst.GenDecl{Tok: token.VAR, Specs: []dst.Spec{&dst.ValueSpec{Names: []*dst.Ident{{Name: "u"}}, Values: []dst.Expr{fwd}}}},
	}
	var specs []*dst.ValueSpec
	for i := 0; i < n; i++ {
		sp := &dst.ValueSpec{Names: []*dst.Ident{{Name: "v" + strconv.Itoa(i)}},
			Values: []dst.Expr{&dst.SelectorExpr{X: &dst.Ident{Name: "a"}, Sel: &dst.Ident{Name: "N" + strconv.Itoa(i)}}}}
		specs = append(specs, sp)
		decls = append(decls, &dst.GenDecl{Tok: token.VAR, Specs: []dst.Spec{sp}})
	}
	decls = append(decls, &dst.GenDecl{Tok: token.VAR, Specs: []dst.Spec{&dst.ValueSpec{Names: []*dst.Ident{{Name: "_"}}, Values: []dst.Expr{&dst.Ident{Name: "local"}}}}})
	f := &dst.File{Name: &dst.Ident{Name: "pkg"}, Decls: decls}
	r := NewRestorer()
	af, _ := r.RestoreFile(f)
	af.Scope = ast.NewScope(nil)
	for i, sp := range specs {
		asp := r.Ast.Nodes[sp].(*ast.ValueSpec)
		obj := &ast.Object{Kind: ast.Var, Name: asp.Names[0].Name, Decl: asp}
		asp.Names[0].Obj = obj
		af.Scope.Insert(obj)
		if i == 0 {
			r.Ast.Nodes[fwd].(*ast.Ident).Obj = obj
		}
	}
	return af, r.Fset
}

// VerifC17Decorate: the identifier resolver fails at its k-th call: DecorateFile returns an error
// wrapping it, no tree, no panic, the input ast is unmodified, and a fresh decorator with a working
// resolver gives the same dst tree as a failure-free run.
func VerifC17Decorate() {
	n := 1 + vfChoice("nsel", 2+vfTier())
	af, fset := vfSelectorFile(n)
	af2, fset2 := vfSelectorFile(n) // identical twin used as the snapshot / reference input

	c0 := 0
	d0 := NewDecoratorWithImports(fset2, vfLocal, vfIdentResolver{failAt: -1, calls: &c0})
	want, err0 := d0.DecorateFile(af2)
	vfAssert(err0 == nil, "reference-run-ok")
	if c0 == 0 {
		return
	}
	injected := errors.New("injected")
	k := vfChoice("failAt", c0)
	c1 := 0
	d1 := NewDecoratorWithImports(fset, vfLocal, vfIdentResolver{failAt: k, calls: &c1, err: injected})
	var got *dst.File
	var err error
	panicked := vfExpectPanic(func() { got, err = d1.DecorateFile(af) })
	vfReach("failed-run")
	vfAssert(!panicked, "failure-does-not-panic")
	vfAssert(err != nil, "failure-returns-error")
	vfAssert(got == nil, "failure-returns-no-tree")
	if err != nil {
		vfAssert(errors.Is(err, injected), "error-wraps-injected")
	}
	vfAssert(vfDeepEqual(af, af2), "input-ast-unmodified")

	c2 := 0
	d2 := NewDecoratorWithImports(fset, vfLocal, vfIdentResolver{failAt: -1, calls: &c2})
	again, err2 := d2.DecorateFile(af)
	vfAssert(err2 == nil, "retry-ok")
	if err2 == nil {
		vfAssert(vfDeepEqual(again, want), "retry-equals-failure-free-run")
	}
}

// ---- C16: determinism (map iteration order) and concurrent restores with shared resolvers ---------

// VerifC16Order: updateImports is run twice on clones of one file (2-3 used paths that all need a new
// import, symbolic package names so that conflicts and renaming occur, 0-1 existing spec, optional
// alias override): once with maps iterated in insertion order and once with every map iteration order
// forked over all permutations. Resulting declarations and package names must be identical.
func VerifC16Order() {
	names := vfNames()
	var specs []dst.Spec
	if vfChoice("nspec", 2) == 1 {
		s, _ := vfImportSpec("spec0", false)
		specs = append(specs, s)
	}
	var idents []*dst.Ident
	n := 2
	if vfTier() > 0 && len(specs) == 0 {
		n += vfChoice("three", 2) // thorough: three used paths, only without a source import spec
	}
	// the used paths: pool paths, or two paths that differ only in letter case (the ordering of the
	// required imports must still be total, otherwise map order leaks into alias assignment)
	pool := vfPool
	if vfChoice("casePaths", 2) == 1 {
		pool = []string{"x.y/Lib", "x.y/lib", "a"}
		names["x.y/Lib"], names["x.y/lib"] = vfBytes("nameU", 1, "pq"), vfBytes("nameL", 1, "pq")
	}
	for i := 0; i < n; i++ {
		idents = append(idents, &dst.Ident{Name: "N", Path: pool[i%len(pool)]})
	}
	file := vfFileWith(specs, idents)
	twin := dst.Clone(file).(*dst.File)
	alias := map[string]string{}
	// both used packages explicitly aliased (nothing left to resolve), aliases symbolic so that they may collide
	if (vfTier() > 0 || len(specs) == 0) && n == 2 && vfChoice("override", 2) == 1 {
		alias[vfPool[0]] = vfBytes("overrideAlias", 1, "pq")
		alias[vfPool[1]] = vfBytes("overrideAlias2", 1, "pq")
	}
	run := func(f *dst.File) (*FileRestorer, error) {
		c := 0
		fr := NewRestorerWithImports(vfLocal, vfResolver{names: names, failAt: -1, calls: &c}).FileRestorer()
		for k, v := range alias {
			fr.Alias[k] = v
		}
		fr.file = f
		fr.packageNames = map[string]string{}
		return fr, fr.updateImports()
	}
	r1, e1 := run(file)
	// symbolically the second run forks over every iteration order of every map; natively Go's
	// randomised map order is sampled repeatedly so that a counterexample order is met with
	// overwhelming probability when the solver says one exists
	for rep := 0; rep < vfNativeRepeats(); rep++ {
		t := dst.Clone(twin).(*dst.File)
		vfMapOrderFork(true)
		r2, e2 := run(t)
		vfMapOrderFork(false)
		vfReach("both")
		vfAssert((e1 == nil) == (e2 == nil), "same-error")
		vfAssert(vfDeepEqual(file.Decls, t.Decls), "imports-independent-of-map-order")
		vfAssert(len(r1.packageNames) == len(r2.packageNames), "package-names-independent-of-map-order")
		for k, v := range r1.packageNames {
			vfAssert(r2.packageNames[k] == v, "package-names-independent-of-map-order")
		}
	}
}

// VerifC16SharedMaps: two goroutines restore different files with their own restorers that share one
// read-only package-name map (guess or simple resolver): no data race; results equal the calls alone.
func VerifC16SharedMaps() {
	shared := map[string]string{"a": "a", "x.y/b": "b", "c/d": "d"}
	var res resolver.RestorerResolver
	p1, p2 := "a", "x.y/b"
	switch vfChoice("kind", 3) {
	case 0:
		res = guess.WithMap(shared)
	case 1:
		res = simple.New(shared)
	default:
		// paths the map does not know: the guessing resolver derives the names from the paths
		res = guess.WithMap(shared)
		p1, p2 = "m/x", "n.o/y"
	}
	mk := func(p string) *dst.File {
		return vfFileWith(nil, []*dst.Ident{{Name: "N", Path: p}})
	}
	f1, f2 := mk(p1), mk(p2)
	g1, g2 := dst.Clone(f1).(*dst.File), dst.Clone(f2).(*dst.File)
	var a1, a2 *ast.File
	var e1, e2 error
	vfShared(res)
	vfParallel(func() {
		a1, e1 = NewRestorerWithImports(vfLocal, res).RestoreFile(f1)
	}, func() {
		a2, e2 = NewRestorerWithImports(vfLocal, res).RestoreFile(f2)
	})
	vfAssert(vfRaceFree(), "no-data-race")
	b1, be1 := NewRestorerWithImports(vfLocal, res).RestoreFile(g1)
	b2, be2 := NewRestorerWithImports(vfLocal, res).RestoreFile(g2)
	vfAssert(e1 == nil && e2 == nil && be1 == nil && be2 == nil, "no-error")
	vfAssert(vfDeepEqual(a1, b1) && vfDeepEqual(a2, b2), "result-equals-call-made-alone")
	vfAssert(len(shared) == 3, "shared-map-not-written")
}


// vfWrapInFile places an arbitrary node at a syntactically fitting position of a file.
func vfWrapInFile(n dst.Node) *dst.File {
	f := &dst.File{Name: &dst.Ident{Name: "pkg"}}
	body := func(st dst.Stmt) {
		f.Decls = append(f.Decls, &dst.FuncDecl{Name: &dst.Ident{Name: "fn"}, Type: &dst.FuncType{Func: true, Params: &dst.FieldList{Opening: true, Closing: true}},
			Body: &dst.BlockStmt{List: []dst.Stmt{st}}})
	}
	switch x := n.(type) {
	case *dst.File:
		return x
	case dst.Decl:
		f.Decls = append(f.Decls, x)
	case dst.Stmt:
		body(x)
	case dst.Expr:
		body(&dst.ExprStmt{X: x})
	case dst.Spec:
		tok := token.VAR
		if _, ok := x.(*dst.TypeSpec); ok {
			tok = token.TYPE
		}
		if _, ok := x.(*dst.ImportSpec); ok {
			tok = token.IMPORT
		}
		f.Decls = append(f.Decls, &dst.GenDecl{Tok: tok, Specs: []dst.Spec{x}})
	case *dst.Field:
		body(&dst.ExprStmt{X: &dst.FuncLit{Type: &dst.FuncType{Func: true, Params: &dst.FieldList{Opening: true, Closing: true, List: []*dst.Field{x}}}, Body: &dst.BlockStmt{}}})
	case *dst.FieldList:
		body(&dst.ExprStmt{X: &dst.FuncLit{Type: &dst.FuncType{Func: true, Params: x}, Body: &dst.BlockStmt{}}})
	}
	return f
}

// C07 per node type: wherever a path-carrying identifier sits - every expression position of every
// node type - import management finds it: the file gains exactly one import of that path and the
// identifier is restored as a selector on the name bound by it.
func vfPerType_C07(typ string) {
	if typ == "ImportSpec" {
		return // an import spec has no expression children
	}
	g := &vfGen{prefix: "n", depth: 1, listLen: 1, exprPath: "x.y/b"}
	// the path sits on every expression leaf, or on the leaves of exactly one expression field
	info := vfNodeInfo[typ]
	if k := vfChoice("only", len(info.ExprFields)+2); k < len(info.ExprFields) {
		g.pathField = typ + "." + info.ExprFields[k]
	} else if k == len(info.ExprFields)+1 {
		g.pathField = "#nested" // only identifiers nested inside children (e.g. field types of a parameter list)
	}
	n := g.Node(typ)
	file := vfWrapInFile(n)
	// the identifiers that carry a path, as recorded by the generator (not found by a tree walk, which
	// is one of the things under test)
	want := g.made
	calls := 0
	name := vfBytes("pkgname", 1, "pq")
	res := NewRestorerWithImports(vfLocal, vfResolver{names: map[string]string{"x.y/b": name}, failAt: -1, calls: &calls})
	af, err := res.RestoreFile(file)
	vfAssert(err == nil, "no-error")
	if err != nil {
		return
	}
	vfReach("restored")
	imps := vfRestoredImports(af)
	cnt := 0
	for _, s := range imps {
		if s.path == "x.y/b" {
			cnt++
			vfAssert(!s.has, "no-alias-needed")
		}
	}
	vfAssert(cnt == vfB2I(len(want) > 0), "used-path-imported-exactly-once")
	for _, id := range want {
		se, ok := res.Ast.Nodes[id].(*ast.SelectorExpr)
		vfAssert(ok, "path-identifier-restored-as-selector")
		if ok {
			vfAssert(se.X.(*ast.Ident).Name == name, "selector-uses-bound-name")
		}
	}
}


// VerifC16Decorate: two goroutines decorate different files with their own decorators (import
// management on, shared syntax-based resolver); both files contain a qualified identifier with comments
// inside, so that the decoration-merging code runs in both. No data race on any package-level or
// shared state; each result equals the call made alone.
func VerifC16Decorate() {
	mk := func(tag string) (*ast.File, *token.FileSet) {
		sel := &dst.SelectorExpr{X: &dst.Ident{Name: "a"}, Sel: &dst.Ident{Name: "N" + tag}}
		sel.X.(*dst.Ident).Decs.End.Append("/*x" + tag + "*/")
		sel.Decs.End.Append("/*e" + tag + "*/")
		f := &dst.File{Name: &dst.Ident{Name: "pkg"}, Decls: []dst.Decl{
			&dst.GenDecl{Tok: token.IMPORT, Specs: []dst.Spec{&dst.ImportSpec{Path: &dst.BasicLit{Kind: token.STRING, Value: "\"x.y/a\""}}}},
			&dst.GenDecl{Tok: token.VAR, Specs: []dst.Spec{&dst.ValueSpec{Names: []*dst.Ident{{Name: "_"}}, Values: []dst.Expr{sel}}}}}}
		r := NewRestorer()
		af, _ := r.RestoreFile(f)
		return af, r.Fset
	}
	a1, fs1 := mk("1")
	a2, fs2 := mk("2")
	b1, gs1 := mk("1")
	b2, gs2 := mk("2")
	shared := goast.New()
	var d1, d2 *dst.File
	var e1, e2 error
	vfShared(shared)
	vfParallel(func() {
		d1, e1 = NewDecoratorWithImports(fs1, vfLocal, shared).DecorateFile(a1)
	}, func() {
		d2, e2 = NewDecoratorWithImports(fs2, vfLocal, shared).DecorateFile(a2)
	})
	vfAssert(vfRaceFree(), "no-data-race")
	vfAssert(e1 == nil && e2 == nil, "no-error")
	w1, _ := NewDecoratorWithImports(gs1, vfLocal, goast.New()).DecorateFile(b1)
	w2, _ := NewDecoratorWithImports(gs2, vfLocal, goast.New()).DecorateFile(b2)
	vfAssert(vfDeepEqual(d1, w1) && vfDeepEqual(d2, w2), "result-equals-call-made-alone")
}

// VerifC07Conflict: three used packages without source imports whose resolved names are symbolic and
// may look like generated aliases ("p", "q", "p1", "q1"): every import added gets a name; all bound
// names are pairwise distinct (a generated alias is re-checked against the names already taken), and
// every reference uses the name bound to its path.
func VerifC07Conflict() {
	names := map[string]string{}
	for i, p := range vfPool {
		n := vfBytes("cname"+strconv.Itoa(i), 1, "pq")
		if vfChoice("csuffix"+strconv.Itoa(i), 2) == 1 {
			n += "1"
		}
		names[p] = n
	}
	var idents []*dst.Ident
	for _, p := range vfPool {
		idents = append(idents, &dst.Ident{Name: "N", Path: p})
	}
	file := vfFileWith(nil, idents)
	calls := 0
	res := NewRestorerWithImports(vfLocal, vfResolver{names: names, failAt: -1, calls: &calls})
	af, err := res.RestoreFile(file)
	vfAssert(err == nil, "no-error")
	if err != nil {
		return
	}
	vfReach("restored")
	imps := vfRestoredImports(af)
	vfAssert(len(imps) == len(vfPool), "each-used-path-imported-once")
	bound := map[string]string{}
	for _, s := range imps {
		if s.has {
			bound[s.path] = s.name
		} else {
			bound[s.path] = names[s.path]
		}
	}
	for i := range imps {
		for j := i + 1; j < len(imps); j++ {
			vfAssert(bound[imps[i].path] != bound[imps[j].path], "conflict/bound-names-distinct")
		}
	}
	for _, id := range idents {
		se, ok := res.Ast.Nodes[id].(*ast.SelectorExpr)
		vfAssert(ok, "conflict/selector")
		if ok {
			vfAssert(se.X.(*ast.Ident).Name == bound[id.Path], "conflict/selector-uses-bound-name")
		}
	}
}

// VerifC07Deterministic: "conflicts renamed deterministically" - the map-order independence harness of
// C16 also runs under C07.
func VerifC07Deterministic() { VerifC16Order() }
