package decorator

import (
	"go/ast"
	"go/token"
	"go/types"
	"strconv"

	"github.com/dave/dst/decorator/resolver/goast"
	"github.com/dave/dst/decorator/resolver/gotypes"
)

// C09: the types-based resolver, as the decorator uses it (resolvePath: resolver + vendor stripping +
// local-path suppression), gives an identifier a package path exactly when it denotes a package-level
// object of another package through a qualified selector or a dot-import. The situation is built from
// real go/types objects (go/types constructors are executed from their SSA); what go/types puts into
// Uses for each syntactic situation is contract T (DESIGN.md section 3).

const vfRemote = "x.y/lib"

// object kinds a Uses entry can hold
const (
	vfObjAbsent = iota
	vfObjPkgName
	vfObjVar
	vfObjField
	vfObjFunc
	vfObjTypeName
	vfObjConst
	vfObjLabel
	vfObjUniverse
	vfObjEmbedded // embedded field (its name is also a type name)
	vfObjKinds
)

func vfObject(kind int, pkg *types.Package, name string, imported *types.Package) types.Object {
	switch kind {
	case vfObjPkgName:
		return types.NewPkgName(token.NoPos, pkg, name, imported)
	case vfObjVar:
		return types.NewVar(token.NoPos, pkg, name, types.Typ[types.Int])
	case vfObjField:
		return types.NewField(token.NoPos, pkg, name, types.Typ[types.Int], false)
	case vfObjEmbedded:
		return types.NewField(token.NoPos, pkg, name, types.Typ[types.Int], true)
	case vfObjFunc:
		return types.NewFunc(token.NoPos, pkg, name, types.NewSignature(nil, nil, nil, false))
	case vfObjTypeName:
		return types.NewTypeName(token.NoPos, pkg, name, nil)
	case vfObjConst:
		return types.NewConst(token.NoPos, pkg, name, types.Typ[types.Int], nil)
	case vfObjLabel:
		return types.NewLabel(token.NoPos, pkg, name)
	case vfObjUniverse:
		return types.NewTypeName(token.NoPos, nil, name, nil) // predeclared: no package
	}
	return nil
}

// VerifC09Selector: id is the Sel of a selector expression.
func VerifC09Selector() {
	local := types.NewPackage(vfLocal, "pkg")
	vend := vfChoice("vendored", 3)
	rpath := vfRemote
	switch vend {
	case 1:
		rpath = "local/vendor/" + vfRemote
	case 2:
		rpath = "vendor/" + vfRemote
	}
	remote := types.NewPackage(rpath, "lib")
	sel := &ast.Ident{Name: "N"}
	var x ast.Expr
	uses := map[*ast.Ident]types.Object{}
	wantRemote := false
	switch vfChoice("x", 4) {
	case 0: // pkg.N : X is an identifier that denotes an imported package (possibly under an alias)
		xi := &ast.Ident{Name: vfOpaque("alias", "l")}
		uses[xi] = vfObject(vfObjPkgName, local, xi.Name, remote)
		x = xi
		wantRemote = true
	case 1: // v.N : X is a variable / type / function (field or method selection)
		xi := &ast.Ident{Name: "v"}
		k := vfObjVar + vfChoice("xkind", 5)
		owner := local
		if vfChoice("xowner", 2) == 1 {
			owner = remote // e.g. a dot-imported variable of the other package: still not qualified
		}
		uses[xi] = vfObject(k, owner, "v", nil)
		x = xi
	case 2: // X is an identifier the type checker has no use entry for
		x = &ast.Ident{Name: "u"}
	default: // f().N : X is not an identifier
		x = &ast.CallExpr{Fun: &ast.Ident{Name: "f"}}
	}
	// the selected name itself may or may not have a Uses entry (it has one for qualified identifiers
	// and field/method selections); the answer must not depend on it
	if vfChoice("selUse", 2) == 1 {
		uses[sel] = vfObject(vfObjVar+vfChoice("selkind", 5), remote, "N", nil)
	}
	se := &ast.SelectorExpr{X: x, Sel: sel}
	// the decorated package may be the external test package of the imported one (path + "_test")
	decPath := vfLocal
	if vend == 0 && vfChoice("externalTest", 2) == 1 {
		decPath = vfRemote + "_test"
	}
	fd := NewDecoratorWithImports(nil, decPath, gotypes.New(uses)).newFileDecorator()
	got, err := fd.resolvePath(true, se, "SelectorExpr", "Sel", "Ident", sel)
	vfReach("resolved")
	vfAssert(err == nil, "no-error")
	if wantRemote {
		vfAssert(got == vfRemote, "qualified-identifier-gets-import-path-without-vendor-prefix")
	} else {
		vfAssert(got == "", "field-method-or-unknown-selector-gets-no-path")
	}
}

// VerifC09Ident: id is a plain identifier in an expression position (dot-imports, locals, universe ...).
func VerifC09Ident() {
	// the decorated package may itself live below a vendor directory: its own objects are still local
	localPath := vfLocal
	if vfChoice("localVendored", 2) == 1 {
		localPath = "root/vendor/" + vfLocal
	}
	local := types.NewPackage(localPath, "pkg")
	remote := types.NewPackage(vfRemote, "lib")
	id := &ast.Ident{Name: vfOpaque("name", "N")}
	uses := map[*ast.Ident]types.Object{}
	kind := vfChoice("kind", vfObjKinds)
	owner := vfChoice("owner", 2) // 0 local package, 1 the other package
	pk := local
	if owner == 1 {
		pk = remote
	}
	if kind != vfObjAbsent {
		uses[id] = vfObject(kind, pk, id.Name, remote)
	}
	var parent ast.Node = &ast.CallExpr{Fun: id}
	field := "Fun"
	if vfChoice("parent", 2) == 1 {
		parent, field = &ast.KeyValueExpr{Key: id, Value: &ast.Ident{Name: "v"}}, "Key"
	}
	// the parser may have resolved the identifier to a declaration in the same file (id.Obj): irrelevant
	if owner == 0 && vfChoice("parserObj", 2) == 1 {
		id.Obj = &ast.Object{Kind: ast.Fun, Name: id.Name}
	}
	// ResolveLocalPath: references to the package's own package-level objects get the package's own path
	// (used when code is moved into another package)
	resolveLocal := owner == 0 && vfChoice("resolveLocal", 2) == 1
	dec := NewDecoratorWithImports(nil, localPath, gotypes.New(uses))
	dec.ResolveLocalPath = resolveLocal
	fd := dec.newFileDecorator()
	got, err := fd.resolvePath(false, parent, vfTypeName(parent)[5:], field, "Expr", id)
	vfReach("resolved")
	vfAssert(err == nil, "no-error")
	if resolveLocal {
		if kind == vfObjVar || kind == vfObjFunc || kind == vfObjTypeName || kind == vfObjConst {
			vfAssert(got == vfLocal, "local-object-gets-the-local-path-when-ResolveLocalPath")
		} else if kind != vfObjPkgName && kind != vfObjLabel {
			vfAssert(got == "", "local-universe-field-label-or-unknown-identifier-gets-no-path")
		}
		return
	}
	// a package-level object of the other package reached without qualifier (dot-import): Var (not a
	// field), Func, TypeName, Const owned by the other package
	remoteObject := owner == 1 && (kind == vfObjVar || kind == vfObjFunc || kind == vfObjTypeName || kind == vfObjConst)
	if remoteObject {
		vfAssert(got == vfRemote, "dot-imported-object-gets-its-package-path")
	} else if kind == vfObjPkgName || (kind == vfObjLabel && owner == 1) {
		// a package name used as a bare identifier / a label owned by another package do not occur in
		// type-checked programs (contract T): no requirement
	} else {
		vfAssert(got == "", "local-universe-field-label-or-unknown-identifier-gets-no-path")
	}
}

// VerifC09Avoid: identifiers in declaring / label / name positions are never resolved, whatever Uses says.
func VerifC09Avoid() {
	remote := types.NewPackage(vfRemote, "lib")
	id := &ast.Ident{Name: "N"}
	uses := map[*ast.Ident]types.Object{id: vfObject(vfObjFunc, remote, "N", nil)}
	pos := []struct{ parent, field string }{{"Field", "Names"}, {"LabeledStmt", "Label"}, {"BranchStmt", "Label"}, {"ImportSpec", "Name"},
		{"ValueSpec", "Names"}, {"TypeSpec", "Name"}, {"FuncDecl", "Name"}, {"File", "Name"}, {"SelectorExpr", "Sel"}}
	p := pos[vfChoice("pos", len(pos))]
	fd := NewDecoratorWithImports(nil, vfLocal, gotypes.New(uses)).newFileDecorator()
	got, err := fd.resolvePath(false, &ast.BadExpr{}, p.parent, p.field, "Ident", id)
	vfAssert(err == nil && got == "", "declaring-and-name-positions-get-no-path")
}

// VerifC09StripVendor: the vendor prefix removal against its specification, for paths assembled from
// symbolic filler bytes around 0-2 occurrences of the vendor element.
func VerifC09StripVendor() {
	fill := func(tag string, max int) string { return vfBytes(tag, vfChoice(tag+".n", max+1), "a/v") }
	lead := []string{"", "vendor/", "/vendor/"}[vfChoice("lead", 3)]
	mid := []string{"", "/vendor/", "vendor/"}[vfChoice("mid", 3)]
	p := fill("pre", 2) + lead + fill("mid", 2) + mid + fill("suf", 2)
	got := stripVendor(p)
	vfReach("stripped")
	// (1) the result is a suffix of the input
	vfAssert(len(got) <= len(p), "result-not-longer")
	cut := len(p) - len(got)
	for i := 0; i < len(got); i++ {
		vfAssert(got[i] == p[cut+i], "result-is-suffix")
	}
	// (2) reference: position after the last "/vendor/", else after a leading "vendor/", else 0
	const el = "/vendor/"
	want := 0
	if len(p) >= len(el)-1 && p[:len(el)-1] == el[1:] {
		want = len(el) - 1
	}
	for i := 0; i+len(el) <= len(p); i++ {
		if p[i:i+len(el)] == el {
			want = i + len(el)
		}
	}
	vfAssert(cut == want, "suffix-after-last-vendor-element")
}

// VerifC09Goast: on files without dot-imports whose package names are not shadowed the syntax-only
// resolver agrees with the types-based one; with a dot-import or two imports under one name it returns
// an error instead of guessing.
func VerifC09Goast() {
	nimp := 1 + vfChoice("nimp", 2)
	paths := []string{"x.y/lib", "x.y/other"}
	resolved := map[string]string{"x.y/lib": vfBytes("rn0", 1, "lo"), "x.y/other": vfBytes("rn1", 1, "lo")}
	var specs []ast.Spec
	var names []string // effective name per import ("." for dot, "_" for blank)
	dot := false
	for i := 0; i < nimp; i++ {
		s := &ast.ImportSpec{Path: &ast.BasicLit{Kind: token.STRING, Value: strconv.Quote(paths[i])}}
		if i == 0 && vfChoice("rawLiteral", 2) == 1 {
			s.Path.Value = "`" + paths[i] + "`" // import `x.y/lib`
		}
		name := resolved[paths[i]]
		switch vfChoice("kind"+strconv.Itoa(i), 4) {
		case 1:
			name = vfBytes("alias"+strconv.Itoa(i), 1, "lo")
			s.Name = &ast.Ident{Name: name}
		case 2:
			name, dot = ".", true
			s.Name = &ast.Ident{Name: "."}
		case 3:
			name = "_"
			s.Name = &ast.Ident{Name: "_"}
		}
		specs = append(specs, s)
		names = append(names, name)
	}
	// the reference: qualified use of import number k
	k := vfChoice("use", nimp)
	xi := &ast.Ident{Name: names[k]}
	if names[k] == "." || names[k] == "_" {
		xi.Name = "zz" // an unrelated identifier
	}
	sel := &ast.Ident{Name: "N"}
	se := &ast.SelectorExpr{X: xi, Sel: sel}
	file := &ast.File{Name: &ast.Ident{Name: "p"}, Decls: []ast.Decl{&ast.GenDecl{Tok: token.IMPORT, Specs: specs},
		&ast.GenDecl{Tok: token.VAR, Specs: []ast.Spec{&ast.ValueSpec{Names: []*ast.Ident{{Name: "_"}}, Values: []ast.Expr{se}}}}}}
	calls := 0
	gr := goast.WithResolver(vfResolver{names: resolved, failAt: -1, calls: &calls})
	gpath, gerr := gr.ResolveIdent(file, se, "Sel", sel)
	vfReach("resolved")

	clash := nimp == 2 && names[0] != "_" && names[1] != "_" && names[0] != "." && names[1] != "."
	sameName := false
	if clash {
		sameName = names[0] == names[1]
	}
	if dot {
		vfAssert(gerr != nil, "dot-import-is-an-error-not-a-guess")
		// also for a bare identifier (which is how dot-imported names are used)
		bare := &ast.Ident{Name: "Println"}
		_, berr := gr.ResolveIdent(file, &ast.CallExpr{Fun: bare}, "Fun", bare)
		vfAssert(berr != nil, "dot-import-is-an-error-for-bare-identifiers-too")
		return
	}
	vfAssert(vfImplies(sameName, gerr != nil), "two-imports-one-name-is-an-error-not-a-guess")
	if gerr != nil {
		vfAssert(sameName, "error-only-when-undecidable")
		return
	}
	// agreement with the types-based resolver: what go/types records for this file (contract T): the
	// identifier X of a qualified selector denotes the PkgName of the import bound to that name
	uses := map[*ast.Ident]types.Object{}
	local := types.NewPackage(vfLocal, "pkg")
	for i := 0; i < nimp; i++ {
		if names[i] != "_" && names[i] != "." && names[i] == xi.Name {
			uses[xi] = types.NewPkgName(token.NoPos, local, names[i], types.NewPackage(paths[i], "x"))
		}
	}
	tpath, terr := gotypes.New(uses).ResolveIdent(file, se, "Sel", sel)
	vfAssert(terr == nil, "types-resolver-ok")
	vfAssert(gpath == tpath, "syntax-resolver-agrees-with-types-resolver")
}

// VerifC09TwoFiles: one types-based resolver serves two files that bind the same package name (symbolic)
// to two different import paths (math/rand in one file, crypto/rand in the other): each qualified
// identifier gets the path its own file imports, in either call order, and asking again gives the same.
func VerifC09TwoFiles() {
	local := types.NewPackage(vfLocal, "pkg")
	name := vfOpaque("name", "rand")
	pa, pb := types.NewPackage("x.y/lib", "rand"), types.NewPackage("x.y/other", "rand")
	xa, xb := &ast.Ident{Name: name}, &ast.Ident{Name: name}
	sa, sb := &ast.Ident{Name: "N"}, &ast.Ident{Name: "N"}
	uses := map[*ast.Ident]types.Object{
		xa: types.NewPkgName(token.NoPos, local, name, pa),
		xb: types.NewPkgName(token.NoPos, local, name, pb),
	}
	ea, eb := &ast.SelectorExpr{X: xa, Sel: sa}, &ast.SelectorExpr{X: xb, Sel: sb}
	fa, fb := &ast.File{Name: &ast.Ident{Name: "pkg"}}, &ast.File{Name: &ast.Ident{Name: "pkg"}}
	r := gotypes.New(uses)
	var ga, gb string
	var e1, e2 error
	if vfChoice("order", 2) == 0 {
		ga, e1 = r.ResolveIdent(fa, ea, "Sel", sa)
		gb, e2 = r.ResolveIdent(fb, eb, "Sel", sb)
	} else {
		gb, e2 = r.ResolveIdent(fb, eb, "Sel", sb)
		ga, e1 = r.ResolveIdent(fa, ea, "Sel", sa)
	}
	vfAssert(e1 == nil && e2 == nil, "no-error")
	vfAssert(ga == "x.y/lib", "each-file-gets-its-own-import-path")
	vfAssert(gb == "x.y/other", "each-file-gets-its-own-import-path")
	ga2, _ := r.ResolveIdent(fa, ea, "Sel", sa)
	vfAssert(ga2 == ga, "same-answer-when-asked-again")
}
