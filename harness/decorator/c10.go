package decorator

import (
	"go/ast"
	"go/token"
	"strconv"

	"github.com/dave/dst"
	"github.com/dave/dst/decorator/resolver/goast"
)

// C10: a declaration decorated with import resolution in file A is placed into file B and B is restored
// with import management: in the restored B the moved reference is bound, by B's restored import
// specs, to the same package path and name as in A, whatever either file named, aliased, dot-imported
// or omitted; B's own references stay bound; decorating the restored B again (syntax-based resolver on
// the restored ast) gives the moved identifier the same path, so repeated moves compose.
//
// File A: `import [alias] "x.y/b"` and `var _ = <alias or b>.N`, decorated by the real DecorateFile
// with the goast resolver (package names from a resolver map with symbolic names).
// File B (dst): 0-1 import spec over the pool paths (none / alias / dot / blank, symbolic alias) and one
// own reference; alias overrides none. Binding is judged under contract T (section 3): a selector
// X.Sel refers to the import whose bound name is X; a bare identifier can refer to a dot-import.
func VerifC10Move() {
	names := vfNames() // path -> package name, symbolic
	const p = "x.y/b"
	// ---- file A as a positioned ast
	aliasKind := vfChoice("a.alias", 2)
	bound := names[p]
	aspec := &dst.ImportSpec{Path: &dst.BasicLit{Kind: token.STRING, Value: strconv.Quote(p)}}
	if aliasKind == 1 {
		bound = vfBytes("a.aliasName", 1, "pqr")
		aspec.Name = &dst.Ident{Name: bound}
	}
	moved := &dst.ValueSpec{Names: []*dst.Ident{{Name: "moved"}}, Values: []dst.Expr{&dst.SelectorExpr{X: &dst.Ident{Name: bound}, Sel: &dst.Ident{Name: "N"}}}}
	fa := &dst.File{Name: &dst.Ident{Name: "pa"}, Decls: []dst.Decl{
		&dst.GenDecl{Tok: token.IMPORT, Specs: []dst.Spec{aspec}},
		&dst.GenDecl{Tok: token.VAR, Specs: []dst.Spec{moved}}}}
	ra := NewRestorer()
	afa, _ := ra.RestoreFile(fa)
	ca := 0
	da := NewDecoratorWithImports(ra.Fset, "local/a", goast.WithResolver(vfResolver{names: names, failAt: -1, calls: &ca}))
	dfa, err := da.DecorateFile(afa)
	vfAssert(err == nil, "decorate-A-ok")
	if err != nil {
		return
	}
	movedSpec := da.Dst.Nodes[ra.Ast.Nodes[moved]].(*dst.ValueSpec)
	mid, isIdent := movedSpec.Values[0].(*dst.Ident)
	vfAssert(isIdent && mid.Path == p && mid.Name == "N", "A-reference-carries-path-and-name")
	if !isIdent {
		return
	}
	// take the declaration out of A
	gdA := dfa.Decls[1].(*dst.GenDecl)
	gdA.Specs = nil
	dfa.Decls = dfa.Decls[:1]
	vfReach("decorated-A")

	// ---- file B
	var specs []dst.Spec
	var bdesc vfSpecDesc
	hasSpec := vfChoice("b.nspec", 2) == 1
	if hasSpec {
		s, d := vfImportSpec("b.spec", false)
		s.Decs.End = nil // keep every length concrete: B is decorated again below (fragment() scans the file)
		specs = append(specs, s)
		bdesc = d
	}
	own := vfIdentWithPath("b.own")
	own.Name = "Own"
	fb := vfFileWith(specs, []*dst.Ident{own})
	fb.Decls = append(fb.Decls, &dst.GenDecl{Tok: token.VAR, Specs: []dst.Spec{movedSpec}})
	cb := 0
	rb := NewRestorerWithImports(vfLocal, vfResolver{names: names, failAt: -1, calls: &cb})
	afb, err := rb.RestoreFile(fb)
	vfAssert(err == nil, "restore-B-ok")
	if err != nil {
		return
	}
	vfReach("restored-B")
	imps := vfRestoredImports(afb)
	boundIn := func(path string) (string, bool) {
		for _, s := range imps {
			if s.path == path {
				if s.has {
					return s.name, true
				}
				return names[path], true
			}
		}
		return "", false
	}
	check := func(id *dst.Ident, tag string) {
		an := rb.Ast.Nodes[id]
		if id.Path == "" || id.Path == vfLocal {
			_, bare := an.(*ast.Ident)
			vfAssert(bare, tag+"/local-stays-bare")
			return
		}
		b, ok := boundIn(id.Path)
		vfAssert(ok, tag+"/path-imported-in-B")
		if !ok {
			return
		}
		switch x := an.(type) {
		case *ast.SelectorExpr:
			vfAssert(x.X.(*ast.Ident).Name == b && b != "." && b != "_", tag+"/bound-to-same-package")
			vfAssert(x.Sel.Name == id.Name, tag+"/same-name")
			// no other import binds that name (otherwise the selector would be ambiguous / not compile)
			for _, s := range imps {
				if s.path != id.Path {
					ob, _ := boundIn(s.path)
					vfAssert(ob != b || ob == "." || ob == "_", tag+"/binding-unambiguous")
				}
			}
		case *ast.Ident:
			vfAssert(b == "." && x.Name == id.Name, tag+"/bare-only-under-dot-import")
		}
	}
	check(mid, "moved")
	check(own, "own")
	_ = bdesc

	// ---- decorate the restored B again: same path annotation (dot-imports cannot be resolved by the
	// syntax-based resolver: it must say so with an error)
	c2 := 0
	d2 := NewDecoratorWithImports(rb.Fset, vfLocal, goast.WithResolver(vfResolver{names: names, failAt: -1, calls: &c2}))
	dfb2, err2 := d2.DecorateFile(afb)
	hasDot := false
	for _, s := range imps {
		if s.has && s.name == "." {
			hasDot = true
		}
	}
	if hasDot {
		vfAssert(err2 != nil, "redecorate/dot-import-reported")
		return
	}
	vfAssert(err2 == nil, "redecorate-ok")
	if err2 != nil {
		return
	}
	_ = dfb2
	if se, ok := rb.Ast.Nodes[mid].(*ast.SelectorExpr); ok {
		again, ok2 := d2.Dst.Nodes[se].(*dst.Ident)
		vfAssert(ok2, "redecorate/collapses-again")
		if ok2 {
			vfAssert(again.Path == p && again.Name == "N", "redecorate/same-path-and-name")
		}
	}
}
