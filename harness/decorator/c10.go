package decorator

import (
	"go/ast"
	"go/token"
	"go/types"
	"strconv"

	"github.com/dave/dst"
	"github.com/dave/dst/decorator/resolver/goast"
	"github.com/dave/dst/decorator/resolver/gotypes"
)

// C10: a declaration decorated with import resolution in file A is placed into file B and B is restored
// with import management: in the restored B the moved reference is bound, by B's restored import
// specs, to the same package path and name as in A, whatever either file named, aliased, dot-imported
// or omitted; B's own references stay bound; decorating the restored B again (syntax-based resolver on
// the restored ast) gives the moved identifier the same path, so repeated moves compose.
//
// File A: `import [alias] "x.y/b"` and `var _ = <alias or b>.N`, decorated by the real DecorateFile
// with the goast resolver (package names from a resolver map with symbolic names).
// File B (dst): 0-1 import spec over the pool paths (none / alias / dot / blank, symbolic alias) and one
// own reference; alias overrides none. Binding is judged under contract T (section 3): a selector
// X.Sel refers to the import whose bound name is X; a bare identifier can refer to a dot-import.
func VerifC10Move() {
	names := vfNames() // path -> package name, symbolic
	const p = "x.y/b"
	// ---- file A as a positioned ast
	aliasKind := vfChoice("a.alias", 2)
	bound := names[p]
	aspec := &dst.ImportSpec{Path: &dst.BasicLit{Kind: token.STRING, Value: strconv.Quote(p)}}
	if aliasKind == 1 {
		bound = vfBytes("a.aliasName", 1, "pqr")
		aspec.Name = &dst.Ident{Name: bound}
	}
	moved := &dst.ValueSpec{Names: []*dst.Ident{{Name: "moved"}}, Values: []dst.Expr{&dst.SelectorExpr{X: &dst.Ident{Name: bound}, Sel: &dst.Ident{Name: "N"}}}}
	fa := &dst.File{Name: &dst.Ident{Name: "pa"}, Decls: []dst.Decl{
		&dst.GenDecl{Tok: token.IMPORT, Specs: []dst.Spec{aspec}},
		&dst.GenDecl{Tok: token.VAR, Specs: []dst.Spec{moved}}}}
	ra := NewRestorer()
	afa, _ := ra.RestoreFile(fa)
	ca := 0
	da := NewDecoratorWithImports(ra.Fset, "local/a", goast.WithResolver(vfResolver{names: names, failAt: -1, calls: &ca}))
	dfa, err := da.DecorateFile(afa)
	vfAssert(err == nil, "decorate-A-ok")
	if err != nil {
		return
	}
	movedSpec := da.Dst.Nodes[ra.Ast.Nodes[moved]].(*dst.ValueSpec)
	mid, isIdent := movedSpec.Values[0].(*dst.Ident)
	vfAssert(isIdent && mid.Path == p && mid.Name == "N", "A-reference-carries-path-and-name")
	if !isIdent {
		return
	}
	// take the declaration out of A
	gdA := dfa.Decls[1].(*dst.GenDecl)
	gdA.Specs = nil
	dfa.Decls = dfa.Decls[:1]
	vfReach("decorated-A")

	// ---- file B
	var specs []dst.Spec
	var bdesc vfSpecDesc
	hasSpec := vfChoice("b.nspec", 2) == 1
	if hasSpec {
		s, d := vfImportSpec("b.spec", false)
		s.Decs.End = nil // keep every length concrete: B is decorated again below (fragment() scans the file)
		specs = append(specs, s)
		bdesc = d
	}
	own := vfIdentWithPath("b.own")
	own.Name = "Own"
	fb := vfFileWith(specs, []*dst.Ident{own})
	fb.Decls = append(fb.Decls, &dst.GenDecl{Tok: token.VAR, Specs: []dst.Spec{movedSpec}})
	cb := 0
	rb := NewRestorerWithImports(vfLocal, vfResolver{names: names, failAt: -1, calls: &cb})
	afb, err := rb.RestoreFile(fb)
	vfAssert(err == nil, "restore-B-ok")
	if err != nil {
		return
	}
	vfReach("restored-B")
	imps := vfRestoredImports(afb)
	boundIn := func(path string) (string, bool) {
		for _, s := range imps {
			if s.path == path {
				if s.has {
					return s.name, true
				}
				return names[path], true
			}
		}
		return "", false
	}
	check := func(id *dst.Ident, tag string) {
		an := rb.Ast.Nodes[id]
		if id.Path == "" || id.Path == vfLocal {
			_, bare := an.(*ast.Ident)
			vfAssert(bare, tag+"/local-stays-bare")
			return
		}
		b, ok := boundIn(id.Path)
		vfAssert(ok, tag+"/path-imported-in-B")
		if !ok {
			return
		}
		switch x := an.(type) {
		case *ast.SelectorExpr:
			vfAssert(x.X.(*ast.Ident).Name == b && b != "." && b != "_", tag+"/bound-to-same-package")
			vfAssert(x.Sel.Name == id.Name, tag+"/same-name")
			// no other import binds that name (otherwise the selector would be ambiguous / not compile)
			for _, s := range imps {
				if s.path != id.Path {
					ob, _ := boundIn(s.path)
					vfAssert(ob != b || ob == "." || ob == "_", tag+"/binding-unambiguous")
				}
			}
		case *ast.Ident:
			vfAssert(b == "." && x.Name == id.Name, tag+"/bare-only-under-dot-import")
		}
	}
	check(mid, "moved")
	check(own, "own")
	_ = bdesc

	// ---- decorate the restored B again: same path annotation (dot-imports cannot be resolved by the
	// syntax-based resolver: it must say so with an error)
	c2 := 0
	d2 := NewDecoratorWithImports(rb.Fset, vfLocal, goast.WithResolver(vfResolver{names: names, failAt: -1, calls: &c2}))
	dfb2, err2 := d2.DecorateFile(afb)
	hasDot := false
	for _, s := range imps {
		if s.has && s.name == "." {
			hasDot = true
		}
	}
	if hasDot {
		vfAssert(err2 != nil, "redecorate/dot-import-reported")
		return
	}
	vfAssert(err2 == nil, "redecorate-ok")
	if err2 != nil {
		return
	}
	_ = dfb2
	if se, ok := rb.Ast.Nodes[mid].(*ast.SelectorExpr); ok {
		again, ok2 := d2.Dst.Nodes[se].(*dst.Ident)
		vfAssert(ok2, "redecorate/collapses-again")
		if ok2 {
			vfAssert(again.Path == p && again.Name == "N", "redecorate/same-path-and-name")
		}
	}
}

// VerifC10TwoFiles: two files of one package (same package clause) are decorated by one Decorator with
// one syntax-based resolver, as decorator.Load does. Both bind the same name (symbolic) to different
// paths - file A by a plain or aliased import of x.y/a, file B by an alias on x.y/b. The reference in
// each file must get the path its own file imports, in either decoration order, so that moved code
// keeps referring to what it referred to.
func VerifC10TwoFiles() {
	names := vfNames()
	name := vfBytes("boundName", 1, "pqr")
	mk := func(path string, aliased bool) (*dst.File, *dst.SelectorExpr) {
		spec := &dst.ImportSpec{Path: &dst.BasicLit{Kind: token.STRING, Value: strconv.Quote(path)}}
		if aliased {
			spec.Name = &dst.Ident{Name: name}
		}
		se := &dst.SelectorExpr{X: &dst.Ident{Name: name}, Sel: &dst.Ident{Name: "N"}}
		f := &dst.File{Name: &dst.Ident{Name: "p"}, Decls: []dst.Decl{
			&dst.GenDecl{Tok: token.IMPORT, Specs: []dst.Spec{spec}},
			&dst.GenDecl{Tok: token.VAR, Specs: []dst.Spec{&dst.ValueSpec{Names: []*dst.Ident{{Name: "_"}}, Values: []dst.Expr{se}}}}}}
		return f, se
	}
	aAliased := vfChoice("a.aliased", 2) == 1
	if !aAliased {
		vfAssume(names["a"] == name) // the plain import of "a" binds the resolved package name
	}
	fa, sa := mk("a", aAliased)
	fb, sb := mk("x.y/b", true)
	r := NewRestorer()
	afa, _ := r.RestoreFile(fa)
	afb, _ := r.RestoreFile(fb)
	calls := 0
	d := NewDecoratorWithImports(r.Fset, vfLocal, goast.WithResolver(vfResolver{names: names, failAt: -1, calls: &calls}))
	var e1, e2 error
	if vfChoice("order", 2) == 0 {
		_, e1 = d.DecorateFile(afa)
		_, e2 = d.DecorateFile(afb)
	} else {
		_, e2 = d.DecorateFile(afb)
		_, e1 = d.DecorateFile(afa)
	}
	vfAssert(e1 == nil && e2 == nil, "decorate-ok")
	if e1 != nil || e2 != nil {
		return
	}
	vfReach("decorated-both")
	ia, oka := d.Dst.Nodes[r.Ast.Nodes[sa]].(*dst.Ident)
	ib, okb := d.Dst.Nodes[r.Ast.Nodes[sb]].(*dst.Ident)
	vfAssert(oka && okb, "qualified-identifiers-collapsed")
	if oka && okb {
		vfAssert(ia.Path == "a", "reference-gets-the-path-its-own-file-imports")
		vfAssert(ib.Path == "x.y/b", "reference-gets-the-path-its-own-file-imports")
	}
}

// VerifC10LocalPath: with ResolveLocalPath (the option for moving code into another package) a
// reference to a package-level declaration of the decorated package gets the package's own path - also
// when the declaration is in the same file, so that the parser has already linked the identifier to it
// (Ident.Obj) - and is written qualified when restored into another package.
func VerifC10LocalPath() {
	same := &dst.FuncDecl{Name: &dst.Ident{Name: "Same"}, Type: &dst.FuncType{Func: true, Params: &dst.FieldList{Opening: true, Closing: true}}, Body: &dst.BlockStmt{}}
	use := &dst.Ident{Name: "Same"}
	moved := &dst.FuncDecl{Name: &dst.Ident{Name: "Moved"}, Type: &dst.FuncType{Func: true, Params: &dst.FieldList{Opening: true, Closing: true}},
		Body: &dst.BlockStmt{List: []dst.Stmt{&dst.ExprStmt{X: &dst.CallExpr{Fun: use}}}}}
	f := &dst.File{Name: &dst.Ident{Name: "pkg"}, Decls: []dst.Decl{same, moved}}
	r := NewRestorer()
	af, _ := r.RestoreFile(f)
	aUse := r.Ast.Nodes[use].(*ast.Ident)
	aSame := r.Ast.Nodes[same].(*ast.FuncDecl)
	if vfChoice("sameFile", 2) == 1 {
		// declared in this file: the parser links use and declaration
		obj := &ast.Object{Kind: ast.Fun, Name: "Same", Decl: aSame}
		aSame.Name.Obj, aUse.Obj = obj, obj
	}
	local := types.NewPackage(vfLocal, "pkg")
	uses := map[*ast.Ident]types.Object{aUse: types.NewFunc(token.NoPos, local, "Same", types.NewSignature(nil, nil, nil, false))}
	d := NewDecoratorWithImports(r.Fset, vfLocal, gotypes.New(uses))
	d.ResolveLocalPath = true
	out, err := d.DecorateFile(af)
	vfAssert(err == nil, "decorate-ok")
	if err != nil {
		return
	}
	dUse := d.Dst.Nodes[aUse].(*dst.Ident)
	vfAssert(dUse.Path == vfLocal, "local-reference-carries-the-local-path")
	// restore into another package: the reference is qualified with the original package's name
	calls := 0
	res := NewRestorerWithImports("other/pkg", vfResolver{names: map[string]string{vfLocal: "pkg"}, failAt: -1, calls: &calls})
	af2, err2 := res.RestoreFile(out)
	vfAssert(err2 == nil, "restore-ok")
	if err2 != nil {
		return
	}
	sel, isSel := res.Ast.Nodes[dUse].(*ast.SelectorExpr)
	vfAssert(isSel, "moved-reference-is-qualified-in-the-other-package")
	if isSel {
		x, _ := sel.X.(*ast.Ident)
		vfAssert(x != nil && x.Name == "pkg" && sel.Sel.Name == "Same", "moved-reference-is-qualified-in-the-other-package")
	}
	_ = af2
}

// VerifC08GoastNames: the syntax-based decorator resolver with an accurate package-name resolver on an
// un-aliased import whose package name (symbolic) is not the last element of its path (as with major
// version suffixes or go-prefixed repositories): the qualified identifier collapses to the imported path
// and an unedited restore leaves the import declaration as it was.
func VerifC08GoastNames() {
	names := map[string]string{"x.y/lib": vfBytes("pkgName", 1, "lmn"), "x.y/v2": vfBytes("pkgName2", 1, "lmn")}
	path := []string{"x.y/lib", "x.y/v2"}[vfChoice("path", 2)]
	spec := &dst.ImportSpec{Path: &dst.BasicLit{Kind: token.STRING, Value: strconv.Quote(path)}}
	se := &dst.SelectorExpr{X: &dst.Ident{Name: names[path]}, Sel: &dst.Ident{Name: "N"}}
	f := &dst.File{Name: &dst.Ident{Name: "p"}, Decls: []dst.Decl{
		&dst.GenDecl{Tok: token.IMPORT, Specs: []dst.Spec{spec}},
		&dst.GenDecl{Tok: token.VAR, Specs: []dst.Spec{&dst.ValueSpec{Names: []*dst.Ident{{Name: "_"}}, Values: []dst.Expr{se}}}}}}
	r := NewRestorer()
	af, _ := r.RestoreFile(f)
	calls := 0
	d := NewDecoratorWithImports(r.Fset, vfLocal, goast.WithResolver(vfResolver{names: names, failAt: -1, calls: &calls}))
	out, err := d.DecorateFile(af)
	vfAssert(err == nil, "decorate-ok")
	if err != nil {
		return
	}
	id, ok := d.Dst.Nodes[r.Ast.Nodes[se]].(*dst.Ident)
	vfAssert(ok, "qualified-identifier-collapsed")
	if ok {
		vfAssert(id.Path == path && id.Name == "N", "qualified-identifier-carries-the-imported-path")
	}
	before := dst.Clone(out).(*dst.File)
	rc := 0
	_, rerr := NewRestorerWithImports(vfLocal, vfResolver{names: names, failAt: -1, calls: &rc}).RestoreFile(out)
	vfAssert(rerr == nil, "restore-ok")
	vfAssert(len(out.Decls) == len(before.Decls), "decls-unchanged")
	vfAssert(vfDeepEqual(out.Decls[0], before.Decls[0]), "import-block-unchanged")
}
