package decorator

import (
	"go/ast"
	"go/token"

	"github.com/dave/dst"
)

func vfDecoration4(name string) string {
	switch vfChoice(name+".kind", 4) {
	case 0:
		return "\n"
	case 1:
		return vfOpaque(name, "//")
	case 2:
		return vfOpaque(name, "/*") + "*/"
	}
	// multi-line block comment: content-bounded, bytes range over {a, newline}
	return "/*" + vfBytes(name+".ml", 2, "a\n") + "*/"
}

// VerifC12StepDecorations: one applyDecorations step (any point kind, any node kind that changes its
// behaviour, <= 2 (quick) / 3 (thorough) decorations of all four kinds) preserves the invariant I from
// an arbitrary state, including the initial state of RestoreFile (where the only caller is File/Start).
func VerifC12StepDecorations() {
	r := vfRestorer()
	initial := len(r.lines) == 1
	var node ast.Node
	name := "Start"
	end := false
	if initial {
		node = &ast.File{}
	} else {
		switch vfChoice("node", 3) {
		case 0:
			node = &ast.Ident{}
		case 1:
			node = &ast.Field{} // has a Comment field: trailing comments go there
		default:
			node = &ast.File{}
		}
		if vfChoice("end", 2) == 1 {
			name, end = "End", true
		}
	}
	n := vfChoice("n", 3+vfTier())
	var decs dst.Decorations
	for i := 0; i < n; i++ {
		decs = append(decs, vfDecoration4("d"+string(rune('0'+i))))
	}
	mark, c0, cursor0 := len(r.lines), len(r.comments), r.cursor
	r.applyDecorations(node, name, decs, end)
	vfReach("applied")
	vfCheckInvariant(r, mark, c0, cursor0, "I-decorations")
}

// VerifC12StepSpace: one applySpace step preserves I.
func VerifC12StepSpace() {
	r := vfRestorer()
	var node dst.Node = &dst.Ident{}
	if vfChoice("bad", 2) == 1 {
		node = &dst.BadStmt{}
	}
	pos := "Before"
	if vfChoice("after", 2) == 1 {
		pos = "After"
	}
	mark, c0, cursor0 := len(r.lines), len(r.comments), r.cursor
	r.applySpace(node, pos, dst.SpaceType(vfInt("space", 0, 2)))
	vfCheckInvariant(r, mark, c0, cursor0, "I-space")
}

// VerifC12StepLiteral: a basic literal (ordinary, or a raw string with embedded newlines) advances the
// cursor by its length and records its inner line starts inside its own extent.
func VerifC12StepLiteral() {
	r := vfRestorer()
	var text string
	raw := vfChoice("raw", 2) == 1
	if raw {
		text = "`" + vfBytes("raw", 1+vfChoice("len", 3), "a\n") + "`"
	} else {
		text = vfOpaque("lit", "\"")
	}
	n := &dst.BasicLit{Kind: token.STRING, Value: text}
	mark, c0, cursor0 := len(r.lines), len(r.comments), r.cursor
	an := r.restoreNode(n, "", "", "", false).(*ast.BasicLit)
	vfCheckInvariant(r, mark, c0, cursor0, "I-literal")
	vfAssert(an.ValuePos == cursor0, "literal-at-cursor")
	vfAssert(r.cursor == cursor0+token.Pos(len(text)), "literal-advances-by-length")
	for i := mark; i < len(r.lines); i++ {
		vfAssert(r.base+r.lines[i] > int(an.ValuePos), "raw-line-inside-literal")
	}
	// one line start per newline byte of the raw string, at that byte's offset
	nl := 0
	for i := 0; raw && i < len(text); i++ {
		isNL := text[i] == '\n'
		nl += vfB2I(isNL)
		found := false
		for j := mark; j < len(r.lines); j++ {
			found = vfOr(found, r.base+r.lines[j] == int(cursor0)+i)
		}
		vfAssert(vfImplies(isNL, found), "raw-newline-recorded-at-its-offset")
	}
	vfAssert(len(r.lines)-mark == nl, "raw-newline-count")
}

// VerifC12File: whole-file restore through the public RestoreFile with the real go/token FileSet:
// a file with forked Start decorations and one declaration is restored into a FileSet that already
// holds a file of arbitrary size (symbolic base); RestoreFile must not panic (SetLines must accept the
// line table), every position lies inside the registered file, and a second file restored into the same
// FileSet occupies a disjoint range.
func VerifC12File() {
	fset := token.NewFileSet()
	fset.AddFile("prior.go", -1, vfInt("priorSize", 0, 1<<20))
	mk := func(p string, maxStart int) *dst.File {
		f := &dst.File{Name: &dst.Ident{Name: vfOpaque(p+"pkg", "p")}}
		n := vfChoice(p+"nstart", maxStart+1)
		for i := 0; i < n; i++ {
			f.Decs.Start = append(f.Decs.Start, vfDecoration4(p+"s"+string(rune('0'+i))))
		}
		f.Decs.Before = dst.SpaceType(vfInt(p+"before", 0, 2))
		if p == "a" && vfChoice(p+"tailkind", 2) == 1 {
			// the file may end in a block comment with nothing behind it
			f.Decs.Name.Append(vfOpaque(p+"tail", "/*") + "*/")
		} else {
			f.Decs.Name.Append(vfOpaque(p+"tail", "//"))
		}
		if maxStart > 0 && vfChoice(p+"decl", 2) == 1 {
			f.Decls = []dst.Decl{&dst.GenDecl{Tok: token.VAR, Specs: []dst.Spec{&dst.ValueSpec{Names: []*dst.Ident{{Name: "x"}}, Type: &dst.Ident{Name: "int"}}},
				Decs: dst.GenDeclDecorations{NodeDecs: dst.NodeDecs{Before: dst.EmptyLine, End: dst.Decorations{vfOpaque(p+"end", "//")}}}}}
		}
		return f
	}
	res := &Restorer{Map: newMap(), Fset: fset}
	fr1 := res.FileRestorer()
	f1 := mk("a", 2)
	var a1 *ast.File
	panicked := vfExpectPanic(func() { a1, _ = fr1.RestoreFile(f1) })
	vfAssert(!panicked, "restore-file-no-panic")
	if panicked {
		return
	}
	vfReach("file1")
	tf1 := fset.File(a1.Package)
	vfAssert(tf1 != nil, "file-registered")
	if tf1 == nil {
		return
	}
	lo, hi := token.Pos(tf1.Base()), token.Pos(tf1.Base()+tf1.Size())
	vfAssert(a1.Package >= lo && a1.End() <= hi, "positions-inside-file")
	for _, cg := range a1.Comments {
		vfAssert(cg.Pos() >= lo && cg.End() <= hi, "comments-inside-file")
	}
	if len(f1.Decs.Start) == 0 && (vfTier() > 0 || len(f1.Decls) == 0) {
		// the second file is restored either by a new restorer or by the very same FileRestorer value
		fr2 := fr1
		if vfChoice("sameFileRestorer", 2) == 0 {
			fr2 = (&Restorer{Map: newMap(), Fset: fset}).FileRestorer()
		}
		lineOfPkg := fset.Position(a1.Package).Line
		lineOfEnd := fset.Position(a1.End()).Line
		nLines := tf1.LineCount()
		f2 := mk("b", 1)
		var a2 *ast.File
		p2 := vfExpectPanic(func() { a2, _ = fr2.RestoreFile(f2) })
		vfAssert(!p2, "restore-file-no-panic")
		if p2 {
			return
		}
		tf2 := fset.File(a2.Package)
		vfAssert(tf2 != nil && tf2 != tf1, "second-file-registered")
		if tf2 != nil {
			vfAssert(tf2.Base() > tf1.Base()+tf1.Size(), "files-do-not-overlap")
			vfAssert(int(a2.Package) >= tf2.Base(), "second-file-positions-inside")
		}
		// the first file must still report what it reported before
		vfAssert(tf1.LineCount() == nLines, "first-file-line-table-unchanged")
		vfAssert(fset.Position(a1.Package).Line == lineOfPkg, "first-file-line-table-unchanged")
		vfAssert(fset.Position(a1.End()).Line == lineOfEnd, "first-file-line-table-unchanged")
		// and its comments are still its own
		prev := lo
		for _, cg := range a1.Comments {
			vfAssert(cg.Pos() >= prev && cg.End() <= hi, "first-file-comments-still-ordered-and-inside")
			prev = cg.End()
		}
	}
}
