package decorator

import (
	"go/ast"
	"go/token"

	"github.com/dave/dst"
)

// C15 is decided at the ast interface under the parser contract P (DESIGN.md section 3): the harness
// builds what go/parser returns for erroneous input (shapes confirmed against the real parser by
// TestVerifContracts, run natively with every check) and runs the real DecorateFile and RestoreFile.

// vfParsedFileSet mimics parser.ParseFile's bookkeeping: the source file of the given size is
// registered after an arbitrary earlier file (symbolic base).
func vfParsedFileSet(size int) (*token.FileSet, *token.File) {
	fset := token.NewFileSet()
	if vfChoice("prior", 2) == 1 {
		fset.AddFile("prior.go", -1, vfInt("priorSize", 0, 1<<20))
	}
	tf := fset.AddFile("", -1, size)
	return fset, tf
}

// VerifC15EmptyFile: source whose package clause is broken (empty input, "func a() {}", "x", ...):
// go/parser returns &ast.File{Name: new(ast.Ident), Scope: NewScope(nil)} with Package == NoPos and
// no declarations; comments seen before the error may be present. size ranges over 0..3 bytes with an
// arbitrary line table. Decorating and then printing must not panic.
func VerifC15EmptyFile() {
	size := vfChoice("size", 4)
	fset, tf := vfParsedFileSet(size)
	if size >= 2 && vfChoice("line2", 2) == 1 {
		tf.SetLines([]int{0, 1})
	}
	f := &ast.File{Name: new(ast.Ident), Scope: ast.NewScope(nil)}
	d := NewDecorator(fset)
	var out *dst.File
	var err error
	panicked := vfExpectPanic(func() { out, err = d.DecorateFile(f) })
	vfAssert(!panicked, "decorate-broken-package-clause-no-panic")
	if panicked || err != nil {
		return
	}
	vfReach("decorated")
	p2 := vfExpectPanic(func() { NewRestorer().RestoreFile(out) })
	vfAssert(!p2, "restore-after-broken-package-clause-no-panic")
}

// VerifC15BadDecl: "package p; <garbage>" : a file whose only declaration is a BadDecl of symbolic
// extent (From <= To inside the file), optionally followed by a line comment; Name has a valid position.
func VerifC15BadDecl() {
	// layout (offsets): 0 "package p\n" 10 ... garbage ... EOF
	size := 14
	fset, tf := vfParsedFileSet(size)
	tf.SetLines([]int{0, 10})
	base := token.Pos(tf.Base())
	from := base + token.Pos(vfInt("from", 10, 13))
	to := base + token.Pos(vfInt("to", 10, 14))
	vfAssume(from <= to)
	f := &ast.File{Package: base, Name: &ast.Ident{NamePos: base + 8, Name: "p"}, Scope: ast.NewScope(nil)}
	f.Decls = []ast.Decl{&ast.BadDecl{From: from, To: to}}
	d := NewDecorator(fset)
	var out *dst.File
	var err error
	panicked := vfExpectPanic(func() { out, err = d.DecorateFile(f) })
	vfAssert(!panicked, "decorate-baddecl-no-panic")
	if panicked || err != nil {
		return
	}
	vfReach("decorated")
	p2 := vfExpectPanic(func() { NewRestorer().RestoreFile(out) })
	vfAssert(!p2, "restore-baddecl-no-panic")
}

// VerifC15NoPosClosers: after syntax errors closing delimiters can have no position (Rparen/Rbrace/
// Rbrack == NoPos) and optional children can be missing; generic instances with all existence flags
// symbolic are restored, fragmented and decorated again without panic.
func vfPerType_C15(typ string) {
	g := &vfGen{prefix: "n", depth: 1, listLen: 1, symFlags: true}
	if vfChoice("nil", 2) == 1 {
		g.nilField = "*" // every optional child missing; lists stay non-empty (go/ast's own Pos() needs e.g. Names[0])
	}
	n := g.Node(typ)
	r := vfRestorerMid()
	var an ast.Node
	p1 := vfExpectPanic(func() { an = r.restoreNode(n, "", "", "", false) })
	vfAssert(!p1, "restore-no-panic")
	if p1 {
		return
	}
	fd := NewDecorator(nil).newFileDecorator()
	p2 := vfExpectPanic(func() {
		fd.addNodeFragments(an)
		fd.link()
		fd.decorateNode(nil, "", "", "", an)
	})
	vfAssert(!p2, "fragment-link-decorate-no-panic")
	vfReach("done")
}

// VerifC15EmptyLiteral: an import spec without a string path ("import foo", source truncated after
// "import"): go/parser returns a BasicLit with an empty Value. Restoring and decorating must not panic.
func VerifC15EmptyLiteral() {
	spec := &dst.ImportSpec{Path: &dst.BasicLit{Kind: token.STRING, Value: ""}}
	if vfChoice("named", 2) == 1 {
		spec.Name = &dst.Ident{Name: "foo"}
	}
	f := &dst.File{Name: &dst.Ident{Name: "p"}, Decls: []dst.Decl{&dst.GenDecl{Tok: token.IMPORT, Specs: []dst.Spec{spec}}}}
	r := NewRestorer()
	var af *ast.File
	p1 := vfExpectPanic(func() { af, _ = r.RestoreFile(f) })
	vfAssert(!p1, "restore-empty-literal-no-panic")
	if p1 {
		return
	}
	p2 := vfExpectPanic(func() { NewDecorator(r.Fset).DecorateFile(af) })
	vfAssert(!p2, "decorate-empty-literal-no-panic")
}
