package decorator

import (
	"errors"
	"go/ast"
	"go/parser"
	"go/token"

	"github.com/dave/dst"
)

// VerifC17Entry: a resolver failure at call k is reported by every decorating entry point, not only by
// DecorateFile: Decorator.ParseFile (source clean or with a recoverable syntax error, for which the
// parser returns a partial file together with its own error), DecorateNode on a fragment (a declaration
// of a parsed file) and Decorator.ParseDir (package root). Obligations: an error that wraps the
// injected one, no tree; without failure the syntax error (if any) is returned with the tree.
func VerifC17Entry() {
	const clean = "package p\n\nimport \"x.y/a\"\n\nfunc f() {\n\ta.F(1)\n\ta.G(2)\n}\n"
	const broken = "package p\n\nimport \"x.y/a\"\n\nfunc f() {\n\ta.F(1 +)\n\ta.G(2)\n}\n"
	injected := errors.New("injected")
	entry := vfChoice("entry", 3)
	src := clean
	syntaxErr := false
	if entry == 0 && vfChoice("syntaxError", 2) == 1 {
		src, syntaxErr = broken, true
	}
	run := func(failAt int, calls *int) (dst.Node, error) {
		d := NewDecoratorWithImports(token.NewFileSet(), vfLocal, vfIdentResolver{failAt: failAt, calls: calls, err: injected})
		switch entry {
		case 0:
			f, err := d.ParseFile("x.go", src, 0)
			if f == nil {
				return nil, err
			}
			return f, err
		case 1:
			af, perr := parser.ParseFile(d.Fset, "x.go", src, parser.ParseComments)
			vfAssert(perr == nil, "setup-parse-ok")
			var fn *ast.FuncDecl
			for _, dd := range af.Decls {
				if x, ok := dd.(*ast.FuncDecl); ok {
					fn = x
				}
			}
			return d.DecorateNode(fn)
		default:
			root := vfFSRoot()
			vfFSPut(root+"/a.go", src)
			vfFSPut(root+"/b.go", "package p\n\nvar V = 1\n")
			pkgs, err := d.ParseDir(root, nil, 0)
			if pkgs == nil {
				return nil, err
			}
			return pkgs["p"], err
		}
	}
	c0 := 0
	ref, err0 := run(-1, &c0)
	vfReach("reference-run")
	if syntaxErr {
		vfAssert(err0 != nil && !errors.Is(err0, injected), "syntax-error-returned-without-resolver-failure")
	} else {
		vfAssert(err0 == nil, "reference-run-ok")
	}
	vfAssert(ref != nil && !vfIsNil(ref), "reference-run-returns-a-tree")
	vfAssert(c0 >= 1, "resolver-consulted")
	if c0 == 0 {
		return
	}
	k := vfChoice("failAt", c0)
	c1 := 0
	var got dst.Node
	var err error
	panicked := vfExpectPanic(func() { got, err = run(k, &c1) })
	vfReach("failed-run")
	vfAssert(!panicked, "failure-does-not-panic")
	vfAssert(err != nil, "failure-returns-error")
	if err != nil {
		vfAssert(errors.Is(err, injected), "error-wraps-injected")
	}
	vfAssert(got == nil || vfIsNil(got), "failure-returns-no-tree")
}
