package decorator

import (
	"go/ast"
	"go/token"

	"github.com/dave/dst"
)

// C18 (1): the parser's identifier-resolution graph survives decoration, and restoration with Extras.
//
// A small file  `package p; func f() { f(); v }; var v = w`  is built as a positioned ast (by restoring
// a dst tree), then given a parser-style object graph: file scope {f, v} (names symbolic, kinds and
// Data symbolic), each object's Decl pointing to its declaring node (cycle object -> decl -> ident ->
// object), a nested function scope, an unresolved identifier w, and a forked extra object whose Decl is
// a Scope / nil and whose Data is a Scope / an int / nil.
func VerifC18Graph() {
	nameF := vfBytes("nameF", 1, "fg")
	nameV := vfBytes("nameV", 1, "gv")
	vfAssume(nameF != nameV)
	fUse := &dst.Ident{Name: nameF}
	vUse := &dst.Ident{Name: nameV}
	fDecl := &dst.FuncDecl{Name: &dst.Ident{Name: nameF}, Type: &dst.FuncType{Func: true, Params: &dst.FieldList{Opening: true, Closing: true}},
		Body: &dst.BlockStmt{List: []dst.Stmt{&dst.ExprStmt{X: &dst.CallExpr{Fun: fUse}}, &dst.ExprStmt{X: vUse}}}}
	vSpec := &dst.ValueSpec{Names: []*dst.Ident{{Name: nameV}}, Values: []dst.Expr{&dst.Ident{Name: "w"}}}
	df := &dst.File{Name: &dst.Ident{Name: "p"}, Decls: []dst.Decl{fDecl, &dst.GenDecl{Tok: token.VAR, Specs: []dst.Spec{vSpec}}}}
	r0 := NewRestorer()
	af, _ := r0.RestoreFile(df)
	aFDecl := r0.Ast.Nodes[fDecl].(*ast.FuncDecl)
	aVSpec := r0.Ast.Nodes[vSpec].(*ast.ValueSpec)
	aFUse := r0.Ast.Nodes[fUse].(*ast.Ident)
	aVUse := r0.Ast.Nodes[vUse].(*ast.Ident)

	// parser-style graph on the ast
	objF := &ast.Object{Kind: ast.ObjKind(vfInt("kindF", 0, 6)), Name: nameF, Decl: aFDecl}
	objV := &ast.Object{Kind: ast.ObjKind(vfInt("kindV", 0, 6)), Name: nameV, Decl: aVSpec, Data: vfInt("iota", 0, 100)}
	aFDecl.Name.Obj, aFUse.Obj = objF, objF
	aVSpec.Names[0].Obj, aVUse.Obj = objV, objV
	fileScope := ast.NewScope(nil)
	fileScope.Insert(objF)
	fileScope.Insert(objV)
	af.Scope = fileScope
	inner := ast.NewScope(fileScope)
	extra := &ast.Object{Kind: ast.Pkg, Name: "extra"}
	// a declaring node that is not part of the tree (the parser synthesises an AssignStmt as the Decl of
	// range-loop variables)
	detached := &ast.AssignStmt{Lhs: []ast.Expr{&ast.Ident{Name: "k"}}, Tok: token.DEFINE, Rhs: []ast.Expr{&ast.Ident{Name: "m"}}}
	switch vfChoice("extraDecl", 4) {
	case 1:
		extra.Decl = inner
	case 2:
		extra.Decl = aVSpec
	case 3:
		extra.Decl = detached
	}
	switch vfChoice("extraData", 4) {
	case 1:
		extra.Data = inner
	case 2:
		extra.Data = vfInt("extraInt", 0, 100)
	case 3:
		extra.Data = aFDecl
	}
	inner.Insert(extra)
	// hang the extra object off an identifier so that it is reachable from the tree
	aFDecl.Body.List[1].(*ast.ExprStmt).X.(*ast.Ident).Obj = objV
	aFDecl.Body.List[0].(*ast.ExprStmt).X.(*ast.CallExpr).Fun.(*ast.Ident).Obj = objF
	aVSpec.Values[0].(*ast.Ident).Obj = extra

	d := NewDecorator(r0.Fset)
	out, err := d.DecorateFile(af)
	vfAssert(err == nil, "decorate-ok")
	if err != nil {
		return
	}
	vfReach("decorated")

	// identifiers share an object exactly when their counterparts do
	aIdents := []*ast.Ident{aFDecl.Name, aFUse, aVSpec.Names[0], aVUse, aVSpec.Values[0].(*ast.Ident), af.Name}
	for i, a := range aIdents {
		da := d.Dst.Nodes[a].(*dst.Ident)
		vfAssert((a.Obj == nil) == (da.Obj == nil), "object-presence-preserved")
		if a.Obj != nil && da.Obj != nil {
			vfAssert(d.Dst.Objects[a.Obj] == da.Obj && d.Ast.Objects[da.Obj] == a.Obj, "object-maps-inverse")
			vfAssert(int(da.Obj.Kind) == int(a.Obj.Kind), "object-kind-kept")
			vfAssert(da.Obj.Name == a.Obj.Name, "object-name-kept")
		}
		for j := i + 1; j < len(aIdents); j++ {
			b := aIdents[j]
			db := d.Dst.Nodes[b].(*dst.Ident)
			vfAssert((a.Obj == b.Obj) == (da.Obj == db.Obj), "sharing-preserved")
		}
	}
	// declaration links point to the counterparts of the declaring nodes; data is kept
	dObjF, dObjV, dExtra := d.Dst.Objects[objF], d.Dst.Objects[objV], d.Dst.Objects[extra]
	vfAssert(dObjF != nil && dObjV != nil && dExtra != nil, "objects-decorated")
	if dObjF == nil || dObjV == nil || dExtra == nil {
		return
	}
	vfAssert(dObjF.Decl == dst.Node(d.Dst.Nodes[aFDecl]), "decl-link-to-counterpart")
	vfAssert(dObjV.Decl == dst.Node(d.Dst.Nodes[aVSpec]), "decl-link-to-counterpart")
	vfAssert(dObjV.Data == objV.Data, "data-kept")
	switch x := extra.Decl.(type) {
	case *ast.Scope:
		vfAssert(dExtra.Decl == d.Dst.Scopes[x], "decl-scope-link")
	case ast.Node:
		vfAssert(dExtra.Decl == dst.Node(d.Dst.Nodes[x]), "decl-link-to-counterpart")
	case nil:
		vfAssert(dExtra.Decl == nil, "nil-decl-kept")
	}
	switch x := extra.Data.(type) {
	case *ast.Scope:
		vfAssert(dExtra.Data == d.Dst.Scopes[x], "data-scope-link")
	case int:
		vfAssert(dExtra.Data == x, "data-kept")
	case ast.Node:
		vfAssert(dExtra.Data == dst.Node(d.Dst.Nodes[x]), "data-node-link")
	case nil:
		vfAssert(dExtra.Data == nil, "nil-data-kept")
	}
	// scope nesting and membership
	ds := out.Scope
	vfAssert(ds != nil && ds == d.Dst.Scopes[fileScope], "file-scope-decorated")
	if ds == nil {
		return
	}
	vfAssert(ds.Outer == nil, "outer-kept")
	vfAssert(len(ds.Objects) == len(fileScope.Objects), "scope-membership")
	for k, o := range fileScope.Objects {
		vfAssert(ds.Objects[k] == d.Dst.Objects[o], "scope-membership")
	}
	if is, ok := d.Dst.Scopes[inner]; ok {
		vfAssert(is.Outer == ds, "scope-nesting")
		vfAssert(is.Objects["extra"] == dExtra, "scope-membership")
	}

	// ---- restore with Extras: an isomorphic graph on the ast side
	res := NewRestorer()
	res.Extras = true
	af2, err2 := res.RestoreFile(out)
	vfAssert(err2 == nil, "restore-ok")
	if err2 != nil {
		return
	}
	vfReach("restored")
	dIdents := make([]*dst.Ident, len(aIdents))
	for i, a := range aIdents {
		dIdents[i] = d.Dst.Nodes[a].(*dst.Ident)
	}
	for i, di := range dIdents {
		ai := res.Ast.Nodes[di].(*ast.Ident)
		vfAssert((di.Obj == nil) == (ai.Obj == nil), "restore/object-presence")
		if di.Obj != nil && ai.Obj != nil {
			vfAssert(int(ai.Obj.Kind) == int(di.Obj.Kind) && ai.Obj.Name == di.Obj.Name, "restore/kind-name")
			vfAssert(res.Ast.Objects[di.Obj] == ai.Obj, "restore/object-map")
		}
		for j := i + 1; j < len(dIdents); j++ {
			dj := dIdents[j]
			aj := res.Ast.Nodes[dj].(*ast.Ident)
			vfAssert((di.Obj == dj.Obj) == (ai.Obj == aj.Obj), "restore/sharing-preserved")
		}
	}
	rObjF := res.Ast.Objects[dObjF]
	vfAssert(rObjF != nil, "restore/objects")
	if rObjF != nil {
		vfAssert(rObjF.Decl == ast.Node(res.Ast.Nodes[d.Dst.Nodes[aFDecl]]), "restore/decl-link")
	}
	if rExtra := res.Ast.Objects[dExtra]; rExtra != nil {
		switch extra.Decl.(type) {
		case *ast.Scope:
			_, isScope := rExtra.Decl.(*ast.Scope)
			vfAssert(isScope, "restore/extra-decl-kind")
		case *ast.AssignStmt:
			as, ok := rExtra.Decl.(*ast.AssignStmt)
			vfAssert(ok && as != nil, "restore/detached-decl-restored")
			if ok && as != nil {
				vfAssert(len(as.Lhs) == 1 && as.Lhs[0].(*ast.Ident).Name == "k", "restore/detached-decl-restored")
			}
		case ast.Node:
			vfAssert(rExtra.Decl != nil, "restore/extra-decl-kind")
		case nil:
			vfAssert(rExtra.Decl == nil, "restore/extra-decl-kind")
		}
	} else {
		vfAssert(false, "restore/extra-object-restored")
	}
	rObjV := res.Ast.Objects[dObjV]
	if rObjV != nil {
		vfAssert(rObjV.Data == objV.Data, "restore/data")
		vfAssert(rObjV.Decl == ast.Node(res.Ast.Nodes[d.Dst.Nodes[aVSpec]]), "restore/decl-link")
	}
	vfAssert(af2.Scope != nil && af2.Scope == res.Ast.Scopes[ds], "restore/file-scope")
	if af2.Scope != nil {
		vfAssert(len(af2.Scope.Objects) == len(ds.Objects), "restore/scope-membership")
		for k, o := range ds.Objects {
			vfAssert(af2.Scope.Objects[k] == res.Ast.Objects[o], "restore/scope-membership")
		}
	}
}
