package decorator

import (
	"bytes"
	"errors"
	"os"
	"strconv"

	"github.com/dave/dst"
	"golang.org/x/tools/go/packages"
)

// vfPrintOf is the reference print of file k. The symbolic engine replaces it by the tag "AST<k>;" that
// its uninterpreted go/format.Node returns for the k-th call (contract PC); natively it is the real
// import-managed print of a clone of the file.
func vfPrintOf(k int, f *dst.File, names map[string]string) string {
	c := 0
	r := NewRestorerWithImports(vfLocal, vfResolver{names: names, failAt: -1, calls: &c})
	buf := &bytes.Buffer{}
	r.Fprint(buf, dst.Clone(f).(*dst.File))
	return buf.String()
}

type vfWrite struct {
	name string
	data string
}

// VerifC20Save: Package.save over 1-3 decorated files (file names from the decorator's Filenames map,
// symbolic package names resolved by the resolver, one used import each). The resolver or the writer
// fails at a forked position (or nowhere). The write log must be exactly one write per file before the
// first failure, in order, to the path the file was loaded from, with that file's own print (the
// printer is the uninterpreted function of contract PC: its k-th call returns the tag AST<k>), the
// error must be returned, and nothing may be written after it.
func VerifC20Save() {
	names := vfNames()
	nfiles := 1 + vfChoice("nfiles", 3)
	d := NewDecorator(nil)
	p := &Package{Package: &packages.Package{PkgPath: vfLocal}, Decorator: d}
	var fnames, prints []string
	for i := 0; i < nfiles; i++ {
		id := &dst.Ident{Name: "N", Path: vfPool[vfChoice("path"+strconv.Itoa(i), len(vfPool))]}
		f := vfFileWith(nil, []*dst.Ident{id})
		fn := "/src/f" + strconv.Itoa(i) + ".go"
		d.Filenames[f] = fn
		fnames = append(fnames, fn)
		prints = append(prints, vfPrintOf(i, f, names))
		p.Syntax = append(p.Syntax, f)
	}
	injected := errors.New("injected")
	// failure mode: 0 none, 1 resolver at call k, 2 writer at call k
	mode := vfChoice("mode", 3)
	failAt := -1
	if mode != 0 {
		failAt = vfChoice("failAt", nfiles)
	}
	calls := 0
	rfail := -1
	if mode == 1 {
		rfail = failAt // each file has exactly one used path -> one resolver call per file
	}
	res := vfResolver{names: names, failAt: rfail, calls: &calls, err: injected}
	var log []vfWrite
	wcalls := 0
	writer := func(filename string, data []byte, perm os.FileMode) error {
		k := wcalls
		wcalls++
		if mode == 2 && k == failAt {
			return injected
		}
		log = append(log, vfWrite{filename, string(data)})
		return nil
	}
	var err error
	panicked := vfExpectPanic(func() { err = p.save(res, writer) })
	vfAssert(!panicked, "save-does-not-panic")
	vfReach("saved")
	want := nfiles
	if mode != 0 {
		want = failAt
	}
	vfAssert(len(log) == want, "one-write-per-file-before-first-failure")
	for i, w := range log {
		if i >= len(fnames) {
			break
		}
		vfAssert(w.name == fnames[i], "written-to-the-path-it-was-loaded-from")
		vfAssert(w.data == prints[i], "written-with-its-own-print")
	}
	if mode == 0 {
		vfAssert(err == nil, "no-error-without-failure")
	} else {
		vfAssert(err != nil, "failure-returned")
		if err != nil {
			vfAssert(errors.Is(err, injected), "failure-wraps-cause")
		}
	}
}
