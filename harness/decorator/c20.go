package decorator

import (
	"strings"
	"bytes"
	"errors"
	"go/format"
	"go/token"
	"os"
	"strconv"

	"github.com/dave/dst"
	"golang.org/x/tools/go/packages"
)

// vfPrintOf is the reference print of file k. The symbolic engine replaces it by the tag "AST<k>;" that
// its uninterpreted go/format.Node returns for the k-th call (contract PC); natively it is the real
// import-managed print of a clone of the file.
func vfPrintOf(k int, f *dst.File, names map[string]string) string {
	c := 0
	r := NewRestorerWithImports(vfLocal, vfResolver{names: names, failAt: -1, calls: &c})
	buf := &bytes.Buffer{}
	af, err := r.RestoreFile(dst.Clone(f).(*dst.File))
	if err != nil {
		return "restore error: " + err.Error()
	}
	// the reference is gofmt's own formatting of the restored ast (go/format), not whatever the
	// library's print helpers currently call
	if err := format.Node(buf, r.Fset, af); err != nil {
		return "format error: " + err.Error()
	}
	return buf.String()
}

type vfWrite struct {
	name string
	data string
}

// VerifC20Save: Package.save over 1-3 decorated files (file names from the decorator's Filenames map,
// symbolic package names resolved by the resolver, one used import each). The resolver or the writer
// fails at a forked position (or nowhere). The write log must be exactly one write per file before the
// first failure, in order, to the path the file was loaded from, with that file's own print (the
// printer is the uninterpreted function of contract PC: its k-th call returns the tag AST<k>), the
// error must be returned, and nothing may be written after it.
func VerifC20Save() {
	names := vfNames()
	nfiles := 1 + vfChoice("nfiles", 3)
	d := NewDecorator(nil)
	p := &Package{Package: &packages.Package{PkgPath: vfLocal}, Decorator: d}
	var fnames, prints []string
	for i := 0; i < nfiles; i++ {
		id := &dst.Ident{Name: "N", Path: vfPool[vfChoice("path"+strconv.Itoa(i), len(vfPool))]}
		f := vfFileWith(nil, []*dst.Ident{id})
		fn := "/src/f" + strconv.Itoa(i) + ".go"
		d.Filenames[f] = fn
		fnames = append(fnames, fn)
		prints = append(prints, vfPrintOf(i, f, names))
		p.Syntax = append(p.Syntax, f)
	}
	injected := errors.New("injected")
	// failure mode: 0 none, 1 resolver at call k, 2 writer at call k
	mode := vfChoice("mode", 3)
	failAt := -1
	if mode != 0 {
		failAt = vfChoice("failAt", nfiles)
	}
	calls := 0
	rfail := -1
	if mode == 1 {
		rfail = failAt // each file has exactly one used path -> one resolver call per file
	}
	res := vfResolver{names: names, failAt: rfail, calls: &calls, err: injected}
	var log []vfWrite
	wcalls := 0
	writer := func(filename string, data []byte, perm os.FileMode) error {
		k := wcalls
		wcalls++
		if mode == 2 && k == failAt {
			return injected
		}
		log = append(log, vfWrite{filename, string(data)})
		return nil
	}
	var err error
	panicked := vfExpectPanic(func() { err = p.save(res, writer) })
	vfAssert(!panicked, "save-does-not-panic")
	vfReach("saved")
	want := nfiles
	if mode != 0 {
		want = failAt
	}
	vfAssert(len(log) == want, "one-write-per-file-before-first-failure")
	for i, w := range log {
		if i >= len(fnames) {
			break
		}
		vfAssert(w.name == fnames[i], "written-to-the-path-it-was-loaded-from")
		vfAssert(w.data == prints[i], "written-with-its-own-print")
	}
	if mode == 0 {
		vfAssert(err == nil, "no-error-without-failure")
	} else {
		vfAssert(err != nil, "failure-returned")
		if err != nil {
			vfAssert(errors.Is(err, injected), "failure-wraps-cause")
		}
	}
}

// VerifC20Disk: the public SaveWithResolver on packages whose files went through the real pipeline
// (positioned ast registered under its path in a FileSet - optionally carrying a //line directive -
// decorated by the real DecorateFile, which records the file names), against a file system that
// already holds longer old contents. Afterwards each path holds exactly that file's print, and no
// other file exists.
func VerifC20Disk() {
	root := vfFSRoot()
	names := vfNames()
	nfiles := 1 + vfChoice("nfiles", 2)
	fset := token.NewFileSet()
	d := NewDecoratorWithImports(fset, vfLocal, vfIdentResolver{failAt: -1, calls: new(int), pkgs: map[string]string{"a": "a", "b": "x.y/b"}})
	p := &Package{Package: &packages.Package{PkgPath: vfLocal}, Decorator: d}
	var paths, prints []string
	for i := 0; i < nfiles; i++ {
		path := root + "/f" + strconv.Itoa(i) + ".go"
		// two used imports in an unsorted block: gofmt (format.Node) sorts them when printing
		specs := []dst.Spec{
			&dst.ImportSpec{Path: &dst.BasicLit{Kind: token.STRING, Value: "\"x.y/b\""}},
			&dst.ImportSpec{Path: &dst.BasicLit{Kind: token.STRING, Value: "\"a\""}},
		}
		df := vfFileWith(specs, []*dst.Ident{{Name: "local" + strconv.Itoa(i)}})
		df.Decls = append(df.Decls, &dst.GenDecl{Tok: token.VAR, Specs: []dst.Spec{&dst.ValueSpec{Names: []*dst.Ident{{Name: "_"}, {Name: "_"}}, Values: []dst.Expr{
			&dst.SelectorExpr{X: &dst.Ident{Name: "b"}, Sel: &dst.Ident{Name: "B"}}, &dst.SelectorExpr{X: &dst.Ident{Name: "a"}, Sel: &dst.Ident{Name: "A"}}}}}})
		if i >= 1 {
			// a multi-line raw string in a file that is not the first of the FileSet (Save restores all
			// files of the package with one Restorer)
			df.Decls = append(df.Decls, &dst.GenDecl{Tok: token.VAR, Specs: []dst.Spec{&dst.ValueSpec{Names: []*dst.Ident{{Name: "_"}},
				Values: []dst.Expr{&dst.BasicLit{Kind: token.STRING, Value: "`a\nb`"}}}}})
		}
		fr := (&Restorer{Map: newMap(), Fset: fset}).FileRestorer()
		fr.Name = path
		af, err := fr.RestoreFile(df)
		vfAssert(err == nil, "setup-restore-ok")
		if vfChoice("linedirective"+strconv.Itoa(i), 2) == 1 {
			// what the parser records for a "//line gen.y:1" comment at the top of the file
			fset.File(af.Package).AddLineInfo(0, root+"/gen.y", 1)
		}
		file, err := d.DecorateFile(af)
		vfAssert(err == nil, "setup-decorate-ok")
		if err != nil {
			return
		}
		p.Syntax = append(p.Syntax, file)
		paths = append(paths, path)
		prints = append(prints, vfPrintOf(i, file, map[string]string{"a": "a", "x.y/b": "b", "c/d": "d"}))
		if vfChoice("oldsize"+strconv.Itoa(i), 2) == 1 {
			// old contents of exactly the size of the new print, but different
			vfFSPut(path, strings.Repeat("#", len(prints[i])))
		} else {
			vfFSPut(path, "// old contents of this file, much longer than what will be written now ........................................................................................................................\n")
		}
	}
	calls := 0
	names = map[string]string{"a": "a", "x.y/b": "b", "c/d": "d"}
	err := p.SaveWithResolver(vfResolver{names: names, failAt: -1, calls: &calls})
	vfAssert(err == nil, "save-ok")
	vfReach("saved")
	for i, path := range paths {
		got, ok := vfFSGet(path)
		vfAssert(ok, "file-exists-at-its-path")
		vfAssert(got == prints[i], "file-holds-exactly-its-print")
	}
	vfAssert(vfFSCount() == nfiles, "nothing-else-written")
}

// VerifC20SaveDefault: the public Package.Save (default resolver: go/packages in the package's
// directory) on a package one of whose files refers to a package that cannot be loaded (packages.Load is
// an environment stub reporting "not found", as the go command does; Package.Imports holds the nameless
// placeholder that decorator.Load leaves for it): Save returns an error, the files before the failing
// one hold their print, the failing file and the later ones keep their old contents.
func VerifC20SaveDefault() {
	root := vfFSRoot()
	nfiles := 1 + vfChoice("nfiles", 2)
	bad := vfChoice("bad", nfiles)
	d := NewDecorator(token.NewFileSet())
	missing := &packages.Package{ID: "x.y/missing", PkgPath: "x.y/missing", Errors: []packages.Error{{Msg: "not found"}}}
	p := &Package{Package: &packages.Package{PkgPath: vfLocal, Imports: map[string]*packages.Package{"x.y/missing": missing}},
		Decorator: d, Dir: root, Imports: map[string]*Package{"x.y/missing": {Package: missing, Imports: map[string]*Package{}}}}
	var paths []string
	for i := 0; i < nfiles; i++ {
		path := root + "/f" + strconv.Itoa(i) + ".go"
		id := &dst.Ident{Name: "local" + strconv.Itoa(i)}
		if i == bad {
			id = &dst.Ident{Name: "Foo", Path: "x.y/missing"}
		}
		df := vfFileWith(nil, []*dst.Ident{id})
		d.Filenames[df] = path
		p.Syntax = append(p.Syntax, df)
		paths = append(paths, path)
		vfFSPut(path, "// old "+strconv.Itoa(i)+"\n")
	}
	err := p.Save()
	vfReach("saved")
	vfAssert(err != nil, "unresolvable-import-is-an-error")
	if err != nil {
		vfAssert(strings.Contains(err.Error(), "could not resolve package x.y/missing"), "error-names-the-unresolvable-package")
	}
	for i, path := range paths {
		got, ok := vfFSGet(path)
		vfAssert(ok, "file-exists-at-its-path")
		if i >= bad {
			vfAssert(got == "// old "+strconv.Itoa(i)+"\n", "failing-and-later-files-not-rewritten")
		} else {
			vfAssert(got != "// old "+strconv.Itoa(i)+"\n", "earlier-files-written")
		}
	}
}
