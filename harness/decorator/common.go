package decorator

import (
	"go/ast"
	"go/token"

	"github.com/dave/dst"
)

// vfRestorer returns a FileRestorer in an arbitrary state satisfying the invariant I of DESIGN.md A.3
// (the state after an arbitrary history of restore steps): symbolic base, cursor, last line offset,
// freshness. lines and comments are append-only in the restorer, so a prefix of concrete length with
// symbolic values represents every history.
func vfRestorer() *FileRestorer { return vfRestorerH(vfChoice("history", 2) == 1) }

// vfRestorerMid is a restorer somewhere inside a file (some history has happened).
func vfRestorerMid() *FileRestorer { return vfRestorerH(true) }

func vfRestorerH(history bool) *FileRestorer {
	r := &FileRestorer{Restorer: NewRestorer(), Alias: map[string]string{}}
	r.nodeDecl = map[*ast.Object]dst.Node{}
	r.nodeData = map[*ast.Object]dst.Node{}
	r.packageNames = map[string]string{}
	r.comments = []*ast.CommentGroup{}
	r.base = vfInt("base", 1, 1<<20)
	r.lines = []int{0}
	if !history {
		// initial state of RestoreFile
		r.cursor = token.Pos(r.base)
		r.cursorAtNewLine = 0
		return r
	}
	last := vfInt("lastLine", 1, 1<<30)
	r.lines = append(r.lines, last)
	r.cursor = token.Pos(vfInt("cursor", 1, 1<<40))
	vfAssume(r.base+last < int(r.cursor))
	r.cursorAtNewLine = token.Pos(vfInt("cursorAtNewLine", 0, 1<<40))
	vfAssume(r.cursorAtNewLine <= r.cursor)
	// cursorAtNewLine is 0 or the position directly after some recorded line start
	vfAssume(vfOr(r.cursorAtNewLine == 0, int(r.cursorAtNewLine)-1-r.base <= last))
	vfAssume(vfOr(r.cursorAtNewLine == 0, int(r.cursorAtNewLine)-1-r.base >= 1))
	// a cursor standing directly behind the last recorded line start got there through a line break
	// (raw-string and block-comment newlines are followed by at least the closing delimiter)
	vfAssume(vfImplies(r.base+last+1 == int(r.cursor), r.cursorAtNewLine == r.cursor))
	return r
}

const (
	vfKindNewline = 0
	vfKindLine    = 1
	vfKindBlock   = 2
)

// vfDecoration returns one decoration of a forked kind: "\n", a line comment or a one-line block
// comment, the comment bodies being opaque strings of arbitrary length.
func vfDecoration(name string) (string, int) {
	k := vfChoice(name+".kind", 3)
	switch k {
	case vfKindNewline:
		return "\n", k
	case vfKindLine:
		return vfOpaque(name, "//"), k
	}
	return vfOpaque(name, "/*") + "*/", k
}

func vfDecorations(name string, max int) (dst.Decorations, []int) {
	n := vfChoice(name+".n", max+1)
	var d dst.Decorations
	var kinds []int
	for i := 0; i < n; i++ {
		s, k := vfDecoration(name + string(rune('0'+i)))
		d = append(d, s)
		kinds = append(kinds, k)
	}
	return d, kinds
}

// vfBreaks counts the line starts recorded at or after index mark that lie in [from, to].
func vfBreaks(r *FileRestorer, mark int, from, to token.Pos) int {
	n := 0
	for _, l := range r.lines[mark:] {
		p := token.Pos(r.base + l)
		n += vfB2I(vfAnd(from <= p, p <= to))
	}
	return n
}

func vfCap2(x int) int { return vfIte(x >= 2, 2, x) }
func vfMax0(x int) int { return vfIte(x >= 0, x, 0) }

// vfBreaksAfter counts the line starts recorded at or after index mark that lie in (from, to]: strictly
// behind from. go/printer's parameter and field list code compares the line of the previous element's
// End() with the line of the next element's Pos(), so a line break produced by Before/After spacing must
// start behind the previous element's End(), not at it (the restorer steps over one byte for that).
func vfBreaksAfter(r *FileRestorer, mark int, from, to token.Pos) int {
	n := 0
	for _, l := range r.lines[mark:] {
		p := token.Pos(r.base + l)
		n += vfB2I(vfAnd(from < p, p <= to))
	}
	return n
}
