package decorator

import (
	"go/ast"
	"go/token"
	"strconv"

	"github.com/dave/dst"
)

// ---- The gap lemma G (DESIGN.md section 5, shared device) -------------------------------------------
//
// link() decides where comments and line breaks are attached by scanning the fragment list; every scan
// stops at the next token or string fragment, so attachment is local to the gap between two
// neighbouring tokens. fragment() itself finds comments and line breaks by scanning file bytes through
// the FileSet (a whole-file scan that cannot be kept symbolic), so the harness builds the fragment list
// the way fragment() does, but from the ast side:
//   1. a configuration (a dst tree) is restored to a positioned ast (real restoreNode),
//   2. the real addNodeFragments gives its token / string / decoration-point fragments,
//   3. into one (quick) or two (thorough) forked gaps a forked sequence of items is inserted exactly
//      where the stable sort of fragment() puts them: after the decoration fragments that sit at the
//      end of the preceding token, before the Start fragments of the node that begins at the next token;
//      items are block comments, line comments (always followed by their line break) and line breaks
//      (single or with a blank line), comment bodies opaque, every line's indent a symbolic column,
//   4. startIndents / endIndents / comment.Indent are filled as fragment()'s last loop does,
//   5. the real link(), the real decorateNode and the real restoreNode run.
// Observed: no panic (C15); every comment is rendered exactly once, in source order, between the same
// two tokens (C03); the line breaks between consecutive items, capped at one blank line, are the
// original ones wherever both neighbours carry a position in go/ast (C01/C02).

// vfCanonical restricts inserted layouts to those gofmt-formatted source can contain.
var vfCanonical = true

// vfCheckLines: assert preservation of the line structure (meaningful for canonical layouts only).
var vfCheckLines = true

const (
	vfItemNL = iota
	vfItemNLEmpty
	vfItemLine      // line comment + line break
	vfItemLineEmpty // line comment + line break + blank line
	vfItemBlock
)

type vfGapItem struct {
	kind int
	text string
}

// vfOnlyGap >= 0 fixes the first gap instead of forking over all gaps (used by targeted harnesses).
var vfOnlyGap = -1

func vfGapItems(tag string, max int) []vfGapItem {
	n := vfChoice(tag+".n", max+1)
	var items []vfGapItem
	for i := 0; i < n; i++ {
		k := vfChoice(tag+".k"+strconv.Itoa(i), 5)
		// fragment() never emits a line break directly after a plain (non-blank) line break: two
		// consecutive newline characters are one "empty line" fragment
		if i > 0 && (items[i-1].kind == vfItemNL || items[i-1].kind == vfItemLine) {
			vfAssume(k != vfItemNL && k != vfItemNLEmpty)
		}
		// canonical (gofmt) layout has at most one blank line in a row: no line-break item directly
		// after an item that already ends with a blank line
		if vfCanonical && i > 0 && (items[i-1].kind == vfItemNLEmpty || items[i-1].kind == vfItemLineEmpty) {
			vfAssume(k != vfItemNL && k != vfItemNLEmpty)
		}
		it := vfGapItem{kind: k}
		letter := string(rune('A' + len(tag)%20 + i))
		switch k {
		case vfItemLine, vfItemLineEmpty:
			it.text = vfOpaque(tag+".c"+strconv.Itoa(i), "//"+letter)
		case vfItemBlock:
			it.text = vfOpaque(tag+".c"+strconv.Itoa(i), "/*"+letter) + "*/"
		}
		// two neighbouring comments may have exactly the same text (repeated "// TODO")
		if i > 0 && it.text != "" && items[i-1].text != "" && ((k == vfItemBlock) == (items[i-1].kind == vfItemBlock)) && vfChoice(tag+".same"+strconv.Itoa(i), 2) == 1 {
			it.text = items[i-1].text
		}
		items = append(items, it)
	}
	return items
}

func vfIsTokenish(f fragment) bool {
	_, _, ok := vfFragExtent(f)
	return ok
}

// vfMeasurable: the fragment's position comes from a position field of go/ast (not from the
// fragmenter's cursor guess): identifiers, literals and Bad nodes always; a token iff its node has a
// position field holding exactly that position.
func vfMeasurable(f fragment) bool {
	switch f := f.(type) {
	case *stringFragment, *badFragment:
		return true
	case *tokenFragment:
		return vfHasPosField(f.Node, f.Pos)
	}
	return false
}

// vfInsertItems returns the fragment list with the items of gap g (the g-th gap between token-ish
// fragments, g = 0 being the gap after the first token-ish fragment) inserted.
func vfInsertItems(frags []fragment, gap int, items []vfGapItem) []fragment {
	// locate token-ish fragment number gap and the next one
	idx := -1
	seen := -1
	for i, f := range frags {
		if vfIsTokenish(f) {
			seen++
			if seen == gap {
				idx = i
				break
			}
		}
	}
	next := len(frags)
	for i := idx + 1; i < len(frags); i++ {
		if vfIsTokenish(frags[i]) {
			next = i
			break
		}
	}
	// insertion point: the first Start decoration fragment in the gap (it sorts at the position of the
	// next token), else directly before the next token
	at := next
	for i := idx + 1; i < next; i++ {
		if df, ok := frags[i].(*decorationFragment); ok && df.Name == "Start" {
			at = i
			break
		}
	}
	var ins []fragment
	for _, it := range items {
		switch it.kind {
		case vfItemNL:
			ins = append(ins, &newlineFragment{})
		case vfItemNLEmpty:
			ins = append(ins, &newlineFragment{Empty: true})
		case vfItemLine:
			ins = append(ins, &commentFragment{Text: it.text}, &newlineFragment{})
		case vfItemLineEmpty:
			ins = append(ins, &commentFragment{Text: it.text}, &newlineFragment{Empty: true})
		case vfItemBlock:
			ins = append(ins, &commentFragment{Text: it.text})
		}
	}
	out := append([]fragment{}, frags[:at]...)
	out = append(out, ins...)
	return append(out, frags[at:]...)
}

// vfAssignIndents mirrors the last loop of fragment(): the indent of a line is the column of its first
// fragment; here every line gets its own symbolic column.
func vfAssignIndents(fd *fileDecorator, shape int) {
	line := 0
	cur := 0
	for i, frag := range fd.fragments {
		if i == 0 || fd.fragments[i-1].Newline() {
			cur = vfInt("indent"+strconv.Itoa(line), 1, 40)
			line++
		}
		switch frag := frag.(type) {
		case *decorationFragment:
			switch frag.Name {
			case "Start":
				fd.startIndents[frag.Node] = cur
			case "End":
				fd.endIndents[frag.Node] = cur
			}
		case *commentFragment:
			frag.Indent = cur
		}
	}
	_ = shape
}

func vfIdent(s string) *dst.Ident { return &dst.Ident{Name: s} }

// vfGapConfig returns the k-th configuration: a dst tree whose gaps are exercised.
func vfGapConfig(k int) dst.Node {
	stmt := func(s string) dst.Stmt { return &dst.ExprStmt{X: vfIdent(s)} }
	switch k {
	case 7:
		return &dst.ExprStmt{X: &dst.CompositeLit{Type: &dst.SelectorExpr{X: vfIdent("pkg"), Sel: vfIdent("T")}, Elts: []dst.Expr{
			&dst.KeyValueExpr{Key: vfIdent("k"), Value: vfIdent("v")}, vfIdent("w")}}}
	case 0: // statements of a block
		return &dst.BlockStmt{List: []dst.Stmt{stmt("a"), stmt("b")}}
	case 1: // call arguments
		return &dst.ExprStmt{X: &dst.CallExpr{Fun: vfIdent("f"), Args: []dst.Expr{vfIdent("a"), vfIdent("b")}}}
	case 2: // declarations of a file
		return &dst.File{Name: vfIdent("p"), Decls: []dst.Decl{
			&dst.GenDecl{Tok: token.VAR, Specs: []dst.Spec{&dst.ValueSpec{Names: []*dst.Ident{vfIdent("x")}, Type: vfIdent("int")}}},
			&dst.FuncDecl{Name: vfIdent("f"), Type: &dst.FuncType{Func: true, Params: &dst.FieldList{Opening: true, Closing: true}}, Body: &dst.BlockStmt{List: []dst.Stmt{stmt("a")}}},
		}}
	case 3: // case clauses (hanging-indent special case)
		return &dst.SwitchStmt{Tag: vfIdent("x"), Body: &dst.BlockStmt{List: []dst.Stmt{
			&dst.CaseClause{List: []dst.Expr{vfIdent("a")}, Body: []dst.Stmt{stmt("s")}},
			&dst.CaseClause{Body: []dst.Stmt{}},
		}}}
	case 4: // struct fields and composite literal elements
		return &dst.GenDecl{Tok: token.TYPE, Specs: []dst.Spec{&dst.TypeSpec{Name: vfIdent("T"), Type: &dst.StructType{Fields: &dst.FieldList{Opening: true, Closing: true, List: []*dst.Field{
			{Names: []*dst.Ident{vfIdent("a")}, Type: vfIdent("int")}, {Names: []*dst.Ident{vfIdent("b")}, Type: vfIdent("int")}}}}}}}
	case 5: // import specs and value specs in a parenthesised declaration
		return &dst.GenDecl{Tok: token.IMPORT, Lparen: true, Rparen: true, Specs: []dst.Spec{
			&dst.ImportSpec{Path: &dst.BasicLit{Kind: token.STRING, Value: "\"a\""}},
			&dst.ImportSpec{Name: vfIdent("x"), Path: &dst.BasicLit{Kind: token.STRING, Value: "\"b\""}}}}
	case 6: // if / else with init
		return &dst.IfStmt{Init: &dst.AssignStmt{Lhs: []dst.Expr{vfIdent("a")}, Tok: token.DEFINE, Rhs: []dst.Expr{vfIdent("b")}}, Cond: vfIdent("c"),
			Body: &dst.BlockStmt{List: []dst.Stmt{stmt("s")}}, Else: &dst.BlockStmt{}}
	case 8: // generic instantiation with several type arguments, index expression, slice expression
		return &dst.ExprStmt{X: &dst.CallExpr{Fun: &dst.IndexListExpr{X: vfIdent("G"), Indices: []dst.Expr{vfIdent("int"), vfIdent("string")}},
			Args: []dst.Expr{&dst.IndexExpr{X: vfIdent("m"), Index: vfIdent("k")}}}}
	case 9: // generic type declaration and function declaration with type parameters
		return &dst.GenDecl{Tok: token.TYPE, Specs: []dst.Spec{&dst.TypeSpec{Name: vfIdent("T"),
			TypeParams: &dst.FieldList{Opening: true, Closing: true, List: []*dst.Field{{Names: []*dst.Ident{vfIdent("P")}, Type: vfIdent("any")}}},
			Type: &dst.ArrayType{Elt: vfIdent("P")}}}}
	case 10: // function declaration with receiver, parameters (ellipsis), results; for and range statements
		return &dst.FuncDecl{Recv: &dst.FieldList{Opening: true, Closing: true, List: []*dst.Field{{Names: []*dst.Ident{vfIdent("r")}, Type: &dst.StarExpr{X: vfIdent("T")}}}},
			Name: vfIdent("m"), Type: &dst.FuncType{Func: true,
				Params:  &dst.FieldList{Opening: true, Closing: true, List: []*dst.Field{{Names: []*dst.Ident{vfIdent("a")}, Type: &dst.Ellipsis{Elt: vfIdent("int")}}}},
				Results: &dst.FieldList{Opening: true, Closing: true, List: []*dst.Field{{Type: vfIdent("error")}}}},
			Body: &dst.BlockStmt{List: []dst.Stmt{
				&dst.RangeStmt{Key: vfIdent("i"), Value: vfIdent("v"), Tok: token.DEFINE, X: vfIdent("a"), Body: &dst.BlockStmt{}},
				&dst.ForStmt{Cond: vfIdent("c"), Body: &dst.BlockStmt{List: []dst.Stmt{&dst.BranchStmt{Tok: token.BREAK}}}},
			}}}
	case 11: // select with comm clauses, channel types, send, labeled statement, go/defer
		return &dst.BlockStmt{List: []dst.Stmt{
			&dst.LabeledStmt{Label: vfIdent("L"), Stmt: &dst.SelectStmt{Body: &dst.BlockStmt{List: []dst.Stmt{
				&dst.CommClause{Comm: &dst.SendStmt{Chan: vfIdent("c"), Value: vfIdent("v")}, Body: []dst.Stmt{&dst.GoStmt{Call: &dst.CallExpr{Fun: vfIdent("g")}}}},
				&dst.CommClause{Body: []dst.Stmt{&dst.DeferStmt{Call: &dst.CallExpr{Fun: vfIdent("d")}}}},
			}}}},
			&dst.DeclStmt{Decl: &dst.GenDecl{Tok: token.VAR, Specs: []dst.Spec{&dst.ValueSpec{Names: []*dst.Ident{vfIdent("ch")}, Type: &dst.ChanType{Dir: dst.SEND, Value: vfIdent("int")}}}}},
		}}
	case 12: // type switch, type assertion, slice expressions, unary/binary/paren/star, func literal
		return &dst.TypeSwitchStmt{Assign: &dst.AssignStmt{Lhs: []dst.Expr{vfIdent("t")}, Tok: token.DEFINE, Rhs: []dst.Expr{&dst.TypeAssertExpr{X: vfIdent("x")}}},
			Body: &dst.BlockStmt{List: []dst.Stmt{
				&dst.CaseClause{List: []dst.Expr{&dst.ArrayType{Elt: vfIdent("byte")}}, Body: []dst.Stmt{
					&dst.ReturnStmt{Results: []dst.Expr{&dst.SliceExpr{X: vfIdent("t"), Low: vfIdent("a"), High: vfIdent("b"), Max: vfIdent("c"), Slice3: true}}}}},
				&dst.CaseClause{Body: []dst.Stmt{&dst.ExprStmt{X: &dst.CallExpr{Fun: &dst.FuncLit{Type: &dst.FuncType{Func: true, Params: &dst.FieldList{Opening: true, Closing: true}}, Body: &dst.BlockStmt{}}}},
					&dst.IncDecStmt{X: &dst.ParenExpr{X: &dst.BinaryExpr{X: &dst.UnaryExpr{Op: token.SUB, X: vfIdent("p")}, Op: token.ADD, Y: &dst.StarExpr{X: vfIdent("q")}}}, Tok: token.INC}}},
			}}}
	case 13: // interface with embedded type and method, map and func types in a struct
		return &dst.GenDecl{Tok: token.TYPE, Lparen: true, Rparen: true, Specs: []dst.Spec{
			&dst.TypeSpec{Name: vfIdent("I"), Type: &dst.InterfaceType{Methods: &dst.FieldList{Opening: true, Closing: true, List: []*dst.Field{
				{Type: vfIdent("E")}, {Names: []*dst.Ident{vfIdent("M")}, Type: &dst.FuncType{Params: &dst.FieldList{Opening: true, Closing: true}}}}}}},
			&dst.TypeSpec{Name: vfIdent("S"), Assign: true, Type: &dst.StructType{Fields: &dst.FieldList{Opening: true, Closing: true, List: []*dst.Field{
				{Names: []*dst.Ident{vfIdent("m")}, Type: &dst.MapType{Key: vfIdent("string"), Value: vfIdent("int")}, Tag: &dst.BasicLit{Kind: token.STRING, Value: "`t`"}}}}}},
		}}
	default: // selector, index, composite literal with key-value elements
		return &dst.ExprStmt{X: &dst.CompositeLit{Type: &dst.SelectorExpr{X: vfIdent("pkg"), Sel: vfIdent("T")}, Elts: []dst.Expr{
			&dst.KeyValueExpr{Key: vfIdent("k"), Value: vfIdent("v")}, vfIdent("w")}}}
	}
}

const vfGapConfigs = 14

func vfGap(config int, maxItems int, twoGaps bool) {
	vfGapTree(vfGapConfig(config), maxItems, twoGaps, nil)
}

// vfGapTree runs the gap lemma on a given tree; setup (optional) configures the file decorator and the
// restorer (e.g. import resolution) before link/decorate/restore.
func vfGapTree(n dst.Node, maxItems int, twoGaps bool, setup func(fd *fileDecorator, r *FileRestorer)) {
	r0 := vfRestorerMid()
	vfAssume(r0.cursor != r0.cursorAtNewLine) // r0 only produces the positioned ast; its freshness is irrelevant
	an := r0.restoreNode(n, "", "", "", false)
	fd := NewDecorator(nil).newFileDecorator()
	r := vfRestorerMid()
	if setup != nil {
		setup(fd, r)
	}
	fd.addNodeFragments(an)
	ngaps := -1
	for _, f := range fd.fragments {
		if vfIsTokenish(f) {
			ngaps++
		}
	}
	if ngaps < 1 {
		return
	}
	g1 := vfOnlyGap
	if g1 < 0 || g1 >= ngaps {
		g1 = vfChoice("gap", ngaps)
	}
	// A comment or line break that stands in front of a token without a position in go/ast (range,
	// else, the '.' of a selector, ...) is sorted behind that token by fragment() (the token's guessed
	// position is the end of the previous token): such gaps never receive items in a real fragment list.
	{
		var tk []fragment
		for _, f := range fd.fragments {
			if vfIsTokenish(f) {
				tk = append(tk, f)
			}
		}
		vfAssume(vfMeasurable(tk[g1+1]))
	}
	items1 := vfGapItems("g1", maxItems)
	var items2 []vfGapItem
	g2 := -1
	if twoGaps && g1+1 < ngaps {
		g2 = g1 + 1 + vfChoice("gap2", ngaps-g1-1)
		{
			var tk []fragment
			for _, f := range fd.fragments {
				if vfIsTokenish(f) {
					tk = append(tk, f)
				}
			}
			vfAssume(vfMeasurable(tk[g2+1]))
		}
		items2 = vfGapItems("g2", 1)
	}
	// insert the later gap first so that indices stay valid
	if g2 >= 0 {
		fd.fragments = vfInsertItems(fd.fragments, g2, items2)
	}
	fd.fragments = vfInsertItems(fd.fragments, g1, items1)
	vfAssignIndents(fd, 0)

	var out dst.Node
	var err error
	panicked := vfExpectPanic(func() {
		fd.link()
		out, err = fd.decorateNode(nil, "", "", "", an)
	})
	vfAssert(!panicked, "link-and-decorate-do-not-panic")
	if panicked || err != nil {
		return
	}
	vfReach("decorated")
	// the extent of Bad nodes is not changed by comments or line breaks standing next to them
	{
		b0, b1 := vfBadLengths(n), vfBadLengths(out)
		vfAssert(len(b0) == len(b1), "bad-node-extent-kept")
		for i := range b0 {
			if i < len(b1) {
				vfAssert(b0[i] == b1[i], "bad-node-extent-kept")
			}
		}
	}

	mark, c0 := len(r.lines), len(r.comments)
	var an2 ast.Node
	p2 := vfExpectPanic(func() { an2 = r.restoreNode(out, "", "", "", false) })
	vfAssert(!p2, "restore-does-not-panic")
	if p2 {
		return
	}
	// every comment exactly once, in source order
	var want []string
	for _, it := range items1 {
		if it.text != "" {
			want = append(want, it.text)
		}
	}
	nfirst := len(want)
	for _, it := range items2 {
		if it.text != "" {
			want = append(want, it.text)
		}
	}
	var got []*ast.Comment
	for i := c0; i < len(r.comments); i++ {
		got = append(got, r.comments[i].List...)
	}
	vfAssert(len(got) == len(want), "every-comment-once")
	if len(got) != len(want) {
		return
	}
	for i := range want {
		vfAssert(got[i].Text == want[i], "comments-in-source-order")
	}
	// comments stay between the same two tokens, and line structure is kept where measurable
	frags2 := vfFragments(an2)
	var toks []fragment
	for _, f := range frags2 {
		if vfIsTokenish(f) {
			toks = append(toks, f)
		}
	}
	check := func(gap int, items []vfGapItem, cs []*ast.Comment) {
		if gap+1 >= len(toks) {
			return
		}
		t1, t2 := toks[gap], toks[gap+1]
		p1, l1, _ := vfFragExtent(t1)
		p2, _, _ := vfFragExtent(t2)
		prevEnd := p1 + token.Pos(l1)
		prevOK := vfMeasurable(t1)
		pending := 0 // original line breaks since the previous positioned item
		ci := 0
		for _, it := range items {
			switch it.kind {
			case vfItemNL:
				pending++
				continue
			case vfItemNLEmpty:
				pending += 2
				continue
			}
			c := cs[ci]
			ci++
			if vfMeasurable(t1) {
				vfAssert(c.Slash >= p1+token.Pos(l1), "comment-stays-after-its-left-token")
			}
			if vfMeasurable(t2) {
				vfAssert(c.Slash+token.Pos(len(c.Text)) <= p2, "comment-stays-before-its-right-token")
			}
			if prevOK && vfCheckLines {
				vfAssert(vfCap2(vfBreaks(r, mark, prevEnd, c.Slash)) == vfCap2(pending), "line-breaks-preserved")
			}
			prevEnd = c.Slash + token.Pos(len(c.Text))
			prevOK = true
			pending = 0
			if it.kind == vfItemLine {
				pending = 1
			}
			if it.kind == vfItemLineEmpty {
				pending = 2
			}
		}
		if prevOK && vfMeasurable(t2) && vfCheckLines {
			vfAssert(vfCap2(vfBreaks(r, mark, prevEnd, p2)) == vfCap2(pending), "line-breaks-preserved")
		}
	}
	check(g1, items1, got[:nfirst])
	if g2 >= 0 {
		check(g2, items2, got[nfirst:])
	}
}


// ---- entry points ---------------------------------------------------------------------------------

// C01 (2): canonical layouts; comments once, in order, between the same tokens, line structure kept.
func vfC01Gap(config int) {
	vfCanonical, vfCheckLines = true, true
	max := 2
	if vfTier() == 0 && config != 0 && config != 1 && config != 3 {
		max = 1
	}
	vfGap(config, max, vfTier() > 0 && config <= 1)
}
func VerifC01Gap0() { vfC01Gap(0) }
func VerifC01Gap1() { vfC01Gap(1) }
func VerifC01Gap2() { vfC01Gap(2) }
func VerifC01Gap3() { vfC01Gap(3) }
func VerifC01Gap4() { vfC01Gap(4) }
func VerifC01Gap5() { vfC01Gap(5) }
func VerifC01Gap6() { vfC01Gap(6) }
func VerifC01Gap7() { vfC01Gap(7) }
func VerifC01Gap8() { vfC01Gap(8) }
func VerifC01Gap9() { vfC01Gap(9) }
func VerifC01Gap10() { vfC01Gap(10) }
func VerifC01Gap11() { vfC01Gap(11) }
func VerifC01Gap12() { vfC01Gap(12) }
func VerifC01Gap13() { vfC01Gap(13) }

// C03 (2): arbitrary layouts (any sequence of comments, line breaks and blank lines fragment() can
// emit, arbitrary indents): no comment is lost, duplicated or reordered, none crosses a token.
func vfC03Gap(config int) {
	if config >= 10 && vfTier() == 0 {
		return // configurations 10-13 are covered in the quick tier by C01 (canonical layouts); C03 adds them in thorough
	}
	vfCanonical, vfCheckLines = false, false
	max := 1 + vfTier()
	if config == 0 {
		max = 2
	}
	vfGap(config, max, false)
}
func VerifC03Gap0() { vfC03Gap(0) }
func VerifC03Gap1() { vfC03Gap(1) }
func VerifC03Gap2() { vfC03Gap(2) }
func VerifC03Gap3() { vfC03Gap(3) }
func VerifC03Gap4() { vfC03Gap(4) }
func VerifC03Gap5() { vfC03Gap(5) }
func VerifC03Gap6() { vfC03Gap(6) }
func VerifC03Gap7() { vfC03Gap(7) }
func VerifC03Gap8() { vfC03Gap(8) }
func VerifC03Gap9() { vfC03Gap(9) }
func VerifC03Gap10() { vfC03Gap(10) }
func VerifC03Gap11() { vfC03Gap(11) }
func VerifC03Gap12() { vfC03Gap(12) }
func VerifC03Gap13() { vfC03Gap(13) }

// C15 (2): Bad nodes (symbolic extent) as neighbours of arbitrary comment / line-break sequences.
func VerifC15GapBad() {
	vfCanonical, vfCheckLines = false, false
	var n dst.Node
	switch vfChoice("bad", 3) {
	case 0:
		n = &dst.BlockStmt{List: []dst.Stmt{&dst.BadStmt{Length: vfInt("len", 0, 100)}, &dst.ExprStmt{X: vfIdent("a")}}}
	case 1:
		n = &dst.ExprStmt{X: &dst.CallExpr{Fun: vfIdent("f"), Args: []dst.Expr{&dst.BadExpr{Length: vfInt("len", 0, 100)}, vfIdent("a")}}}
	default:
		n = &dst.File{Name: vfIdent("p"), Decls: []dst.Decl{&dst.BadDecl{Length: vfInt("len", 0, 100)},
			&dst.GenDecl{Tok: token.VAR, Specs: []dst.Spec{&dst.ValueSpec{Names: []*dst.Ident{vfIdent("x")}, Type: vfIdent("int")}}}}}
	}
	vfGapTree(n, 2+vfTier(), false, nil) // two items: a comment on a line of its own in front of the Bad node
}

// C08 (1): a qualified identifier pkg.Name with comments and line breaks around the dot collapses to a
// path-carrying identifier (decorateSelectorExpr + mergeDecorations, identifier resolver saying
// "qualified") and expands back (restoreIdent with import management): every comment once, in order,
// between the same tokens, line structure kept.
type vfQualResolver struct{}

func (vfQualResolver) ResolveIdent(file *ast.File, parent ast.Node, parentField string, id *ast.Ident) (string, error) {
	if se, ok := parent.(*ast.SelectorExpr); ok && parentField == "Sel" {
		if x, ok := se.X.(*ast.Ident); ok && x.Name == "pkg" {
			return "x.y/pkg", nil
		}
	}
	return "", nil
}

func VerifC08Gap() {
	vfCanonical, vfCheckLines = true, true
	var n dst.Node
	sel := &dst.SelectorExpr{X: vfIdent("pkg"), Sel: vfIdent("Name")}
	switch vfChoice("ctx", 3) {
	case 0:
		n = &dst.ExprStmt{X: &dst.CallExpr{Fun: sel, Args: []dst.Expr{vfIdent("a")}}}
	case 1:
		n = &dst.ExprStmt{X: &dst.CallExpr{Fun: vfIdent("f"), Args: []dst.Expr{vfIdent("a"), sel}}}
	default:
		n = &dst.BlockStmt{List: []dst.Stmt{&dst.ExprStmt{X: vfIdent("a")}, &dst.ExprStmt{X: sel}}}
	}
	vfGapTree(n, 2, vfTier() > 0, func(fd *fileDecorator, r *FileRestorer) {
		fd.Resolver, fd.Path = vfQualResolver{}, vfLocal
		calls := 0
		r.Resolver, r.Path = vfResolver{names: map[string]string{"x.y/pkg": "pkg"}, failAt: -1, calls: &calls}, vfLocal
		r.packageNames["x.y/pkg"] = "pkg"
	})
}

// C15 (2) on ordinary neighbours: arbitrary comment / line-break sequences in every gap of a block (up
// to 2 items; 3 in thorough), of a switch with case clauses, an if/else and a select (1; 2 in thorough;
// the hanging-indent logic gets three items in VerifC15Hanging) never make link, decorate or restore panic.
func vfC15Gap(config int) {
	vfCanonical, vfCheckLines = false, false
	max := 1 + vfTier()
	if config == 0 {
		max = 2 + vfTier()
	}
	vfGap(config, max, false)
}
func VerifC15Gap0() { vfC15Gap(0) }
func VerifC15Gap3() { vfC15Gap(3) }
func VerifC15Gap6() { vfC15Gap(6) }
func VerifC15Gap11() { vfC15Gap(11) }

// VerifC08QualifiedPoints: the decoration points of an expanded qualified identifier (same harness as
// VerifC04Qualified, run under C08 as well: "expand back with every interior comment intact").
func VerifC08QualifiedPoints() { VerifC04Qualified() }


// VerifC15Hanging: the hanging-indent logic of link() (End of a statement / case clause followed by
// own-line comments at the body indent, the clause indent, or a third indent) with up to three items in
// the gap behind the last statement of a case clause, and behind a comm clause.
func VerifC15Hanging() {
	vfCanonical, vfCheckLines = false, false
	if vfChoice("select", 2) == 0 {
		// switch x { case a: s ; default: }  -> token-ish fragments: switch x { case a : s default : }
		vfOnlyGap = 6 // behind "s", in front of the next clause
		vfGap(3, 3, false)
	} else {
		vfOnlyGap = 9 // config 11: L : select { case c <- v : go g ( ) | case ...
		vfGap(11, 3, false)
	}
	vfOnlyGap = -1
}
func VerifC15Gap10() {
	vfCanonical, vfCheckLines = false, false
	vfGap(10, 1+vfTier(), false)
}

// C03 runs the targeted hanging-indent harness and the range-statement configuration as well
// ("nothing is dropped, duplicated, reordered" holds for arbitrary indents and three items).
func VerifC03Hanging() { VerifC15Hanging() }
func VerifC03Gap10Quick() {
	if vfTier() > 0 {
		return // thorough runs VerifC03Gap10
	}
	vfCanonical, vfCheckLines = false, false
	vfGap(10, 1, false)
}

// VerifC03TypeSpecs: two comments behind a type spec inside a parenthesised group (the comments go to
// the spec's Comment field): conservation with up to two items in the gap behind the first spec.
func VerifC03TypeSpecs() {
	vfCanonical, vfCheckLines = false, false
	n := &dst.GenDecl{Tok: token.TYPE, Lparen: true, Rparen: true, Specs: []dst.Spec{
		&dst.TypeSpec{Name: vfIdent("A"), Type: vfIdent("int")},
		&dst.TypeSpec{Name: vfIdent("B"), Type: vfIdent("int")}}}
	vfOnlyGap = 3 // type ( A int | B int )
	vfGapTree(n, 2, false, nil)
	vfOnlyGap = -1
}

// VerifC03CommentFields: two comments behind a struct field, a value spec or an import spec (like type
// specs these nodes have a Comment field that takes same-line comments): conservation with up to two
// items in the gap behind the first element.
func VerifC03CommentFields() {
	vfCanonical, vfCheckLines = false, false
	switch vfChoice("kind", 3) {
	case 0:
		n := &dst.StructType{Fields: &dst.FieldList{Opening: true, Closing: true, List: []*dst.Field{
			{Names: []*dst.Ident{vfIdent("a")}, Type: vfIdent("int")},
			{Names: []*dst.Ident{vfIdent("b")}, Type: vfIdent("int")}}}}
		vfOnlyGap = 3 // struct { a int | b int }
		vfGapTree(n, 2, false, nil)
	case 1:
		n := &dst.GenDecl{Tok: token.VAR, Lparen: true, Rparen: true, Specs: []dst.Spec{
			&dst.ValueSpec{Names: []*dst.Ident{vfIdent("a")}, Type: vfIdent("int")},
			&dst.ValueSpec{Names: []*dst.Ident{vfIdent("b")}, Type: vfIdent("int")}}}
		vfOnlyGap = 3 // var ( a int | b int )
		vfGapTree(n, 2, false, nil)
	default:
		n := &dst.GenDecl{Tok: token.IMPORT, Lparen: true, Rparen: true, Specs: []dst.Spec{
			&dst.ImportSpec{Path: &dst.BasicLit{Kind: token.STRING, Value: "\"a\""}},
			&dst.ImportSpec{Path: &dst.BasicLit{Kind: token.STRING, Value: "\"b\""}}}}
		vfOnlyGap = 2 // import ( "a" | "b" )
		vfGapTree(n, 2, false, nil)
	}
	vfOnlyGap = -1
}

// vfBadLengths lists the Length of every Bad node of a dst tree in traversal order.
func vfBadLengths(n dst.Node) []int {
	var out []int
	dst.Inspect(n, func(x dst.Node) bool {
		switch b := x.(type) {
		case *dst.BadDecl:
			out = append(out, b.Length)
		case *dst.BadExpr:
			out = append(out, b.Length)
		case *dst.BadStmt:
			out = append(out, b.Length)
		}
		return true
	})
	return out
}
