package decorator

import (
	"go/ast"
	"go/token"

	"github.com/dave/dst"
	"github.com/dave/dst/dstutil"
)

// ---- shared helpers ---------------------------------------------------------------------------

// vfFragExtent returns position and length of a token-like fragment (token, string, bad).
func vfFragExtent(f fragment) (pos token.Pos, length int, ok bool) {
	switch f := f.(type) {
	case *tokenFragment:
		return f.Pos, len(f.Token.String()), true
	case *stringFragment:
		return f.Pos, len(f.String), true
	case *badFragment:
		return f.Pos, f.Length, true
	}
	return 0, 0, false
}

// vfFragments runs the real fragmenter (generated addNodeFragments) on a restored ast.
func vfFragments(an ast.Node) []fragment {
	fd := NewDecorator(nil).newFileDecorator()
	fd.addNodeFragments(an)
	return fd.fragments
}

// vfCheckInvariant asserts the restorer invariant I (DESIGN.md A.3) on the suffix produced since
// (mark, c0, cursor0).
func vfCheckInvariant(r *FileRestorer, mark, c0 int, cursor0 token.Pos, id string) {
	vfAssert(r.cursor >= cursor0, id+"/cursor-monotone")
	vfAssert(r.cursorAtNewLine <= r.cursor, id+"/fresh-mark-behind-cursor")
	if n := len(r.lines); n > 1 {
		vfAssert(vfImplies(r.base+r.lines[n-1]+1 == int(r.cursor), r.cursorAtNewLine == r.cursor), id+"/directly-behind-line-start-means-fresh")
	}
	for i := mark; i < len(r.lines); i++ {
		vfAssert(r.lines[i-1] < r.lines[i], id+"/lines-strictly-increasing")
		vfAssert(r.base+r.lines[i] < int(r.cursor), id+"/line-before-cursor")
		vfAssert(r.base+r.lines[i] >= int(cursor0), id+"/line-not-before-step")
	}
	prevEnd := cursor0
	for i := c0; i < len(r.comments); i++ {
		for _, c := range r.comments[i].List {
			vfAssert(c.Slash >= prevEnd, id+"/comments-ordered")
			prevEnd = c.Slash + token.Pos(len(c.Text))
			vfAssert(prevEnd <= r.cursor, id+"/comment-inside")
		}
	}
}

// ---- C12 / C04: positions assigned by restoreNode -------------------------------------------------

// For every node type: a generic instance (symbolic spacing, flags and token kinds, one block comment on
// every point of the node and of its children) is restored from an arbitrary
// restorer state. The real fragmenter is then run over the restored ast: its token/string/bad
// fragments must be in non-decreasing position order without overlap (the restorer's position
// arithmetic agrees with the fragmenter's token lengths and order) and inside the range the cursor
// covered; rendered comments must not overlap any token; the invariant I holds afterwards.
// Decorations on the node itself are covered per point by C04 and per step by VerifC12Step*.
func vfPerType_C12(typ string) {
	g := &vfGen{prefix: "n", depth: 1, listLen: 1 + vfChoice("list2", 2), spaces: true, symFlags: true, symToks: true}
	commented := vfChoice("commented", 2) == 1
	if commented {
		g.decPoint = "*"
	}
	n := g.Node(typ)
	r := vfRestorerH(typ != "File" || vfChoice("history", 2) == 1)
	mark, c0, cursor0 := len(r.lines), len(r.comments), r.cursor
	an := r.restoreNode(n, "", "", "", false)
	vfReach("restored")
	vfCheckInvariant(r, mark, c0, cursor0, "I")
	// Without comments the fragmenter's cursor arithmetic must reproduce the restorer's positions
	// exactly (tokens that have no position field in go/ast are located by token lengths alone).
	vfCheckTokens(r, an, cursor0, !commented)
	vfObserve("cursor", int(r.cursor))
	vfObserve("nlines", len(r.lines))
}

func vfCheckTokens(r *FileRestorer, an ast.Node, cursor0 token.Pos, exact bool) {
	frags := vfFragments(an)
	prevEnd := cursor0
	for _, f := range frags {
		if pos, l, ok := vfFragExtent(f); ok {
			vfAssert(pos >= prevEnd, "tokens-ordered-nonoverlapping")
			prevEnd = pos + token.Pos(l)
		}
	}
	vfAssert(prevEnd <= r.cursor, "tokens-inside-cursor-range")
	if exact {
		// the fragmenter's own cursor after the last token is where it believes the node ends
		fd := NewDecorator(nil).newFileDecorator()
		fd.addNodeFragments(an)
		vfAssert(token.Pos(fd.cursor) <= r.cursor, "fragmenter-cursor-agrees")
	}
}

func vfDecsOf(n dst.Node, point string) dst.Decorations {
	d, _ := vfField(vfField(n, "Decs"), point).(dst.Decorations)
	if d == nil {
		nd, _ := vfField(vfField(n, "Decs"), "NodeDecs").(dst.NodeDecs)
		if point == "Start" {
			return nd.Start
		}
		if point == "End" {
			return nd.End
		}
	}
	return d
}

// C04: each comment decoration of a point is rendered exactly once, in listing order, inside the gap
// that the fragmenter assigns to that point (between the token/child before it and the one after).
func vfPerType_C04(typ string) {
	info := vfNodeInfo[typ]
	g := &vfGen{prefix: "n", depth: 1, listLen: 1, maxDecs: 2, symFlags: false}
	if len(info.Optional) > 0 && vfChoice("optionalNil", 2) == 1 {
		g.nilField = "*" // decorations stay attached to a point even when the optional child next to it is absent
	}
	pi := vfChoice("point", len(info.Points))
	point := info.Points[pi]
	g.decPoint = typ + "." + point
	n := g.Node(typ)
	decs := vfDecsOf(n, point)

	r := vfRestorer()
	c0, cursor0 := len(r.comments), r.cursor
	an := r.restoreNode(n, "", "", "", false)
	vfReach("restored")

	// (a) exactly the comment decorations, once each, in order
	var rendered []*ast.Comment
	for i := c0; i < len(r.comments); i++ {
		rendered = append(rendered, r.comments[i].List...)
	}
	k := 0
	for _, d := range decs {
		if d == "\n" {
			continue
		}
		vfAssert(k < len(rendered), "every-comment-rendered")
		if k < len(rendered) {
			vfAssert(rendered[k].Text == d, "comment-text-and-order")
		}
		k++
	}
	vfAssert(k == len(rendered), "no-comment-duplicated-or-invented")

	// (b) placement: inside the fragmenter's gap for (node, point)
	frags := vfFragments(an)
	idx := -1
	for i, f := range frags {
		if df, ok := f.(*decorationFragment); ok && df.Node == an && df.Name == point {
			idx = i
			break
		}
	}
	// Points that exist only conditionally (e.g. ChanType.Arrow without an arrow token, File.End) are
	// not known to the fragmenter for this instance: then only (a) and the range check apply.
	lo, hi := cursor0, r.cursor
	if idx >= 0 {
		for i := idx - 1; i >= 0; i-- {
			if pos, l, ok := vfFragExtent(frags[i]); ok {
				lo = pos + token.Pos(l)
				break
			}
		}
		for i := idx + 1; i < len(frags); i++ {
			// only tokens whose position comes from go/ast bound the gap from the right: the fragmenter's
			// guess for a position-less token (e.g. the ']' of a slice type) is the end of the previous
			// token, which lies in front of a comment standing between them
			if pos, _, ok := vfFragExtent(frags[i]); ok && vfMeasurable(frags[i]) {
				hi = pos
				break
			}
		}
	}
	for _, c := range rendered {
		vfAssert(c.Slash >= lo, "comment-after-preceding-token")
		vfAssert(c.Slash+token.Pos(len(c.Text)) <= hi, "comment-before-following-token")
	}
	// Start before the node's first token, End after its last (when the node has tokens at all)
	if point == "Start" && an.Pos().IsValid() {
		for _, c := range rendered {
			vfAssert(c.Slash+token.Pos(len(c.Text)) <= an.Pos(), "start-before-first-token")
		}
	}
	if point == "End" && an.Pos().IsValid() {
		for _, c := range rendered {
			vfAssert(c.Slash >= an.End(), "end-after-last-token")
		}
	}
	vfCheckEndIndent(r, point, rendered)
}

// vfCheckEndIndent: a comment of an End point that starts a line is indented (it does not sit in the
// first column, which is where the printer would take it for a comment of the following element); this
// is part of the printer contract PC: the printer looks at the column of a comment that begins a line.
func vfCheckEndIndent(r *FileRestorer, point string, rendered []*ast.Comment) {
	if point != "End" {
		return
	}
	for _, c := range rendered {
		for i, l := range r.lines {
			// A recorded line start is the position of the line break itself; what follows it starts
			// one further. A comment exactly there would sit in column 1. (The first line has no line
			// break in front of it.)
			if i > 0 {
				vfAssert(token.Pos(r.base+l)+1 != c.Slash, "end-comment-on-own-line-is-indented")
			}
		}
	}
}

// ---- C03(1) / C01(1) / C11: ast -> dst -> ast round trip per node type -------------------------------

type vfParents struct {
	astParent map[ast.Node]ast.Node
	dstParent map[dst.Node]dst.Node
}

func vfAstParents(root ast.Node) (map[ast.Node]ast.Node, []ast.Node) {
	par := map[ast.Node]ast.Node{}
	var order []ast.Node
	var stack []ast.Node
	ast.Inspect(root, func(n ast.Node) bool {
		if n == nil {
			stack = stack[:len(stack)-1]
			return true
		}
		if len(stack) > 0 {
			par[n] = stack[len(stack)-1]
		}
		order = append(order, n)
		stack = append(stack, n)
		return true
	})
	return par, order
}

func vfDstParents(root dst.Node) (map[dst.Node]dst.Node, []dst.Node) {
	par := map[dst.Node]dst.Node{}
	var order []dst.Node
	var stack []dst.Node
	dst.Inspect(root, func(n dst.Node) bool {
		if n == nil {
			stack = stack[:len(stack)-1]
			return true
		}
		if len(stack) > 0 {
			par[n] = stack[len(stack)-1]
		}
		order = append(order, n)
		stack = append(stack, n)
		return true
	})
	return par, order
}

func vfSameKind(a ast.Node, d dst.Node) bool {
	an, dn := vfTypeName(a), vfTypeName(d)
	return len(an) > 5 && len(dn) > 5 && an[:5] == "*ast." && dn[:5] == "*dst." && an[5:] == dn[5:]
}

// vfMapLaws checks the inverse-correspondence laws between an ast tree and a dst tree through the
// two node maps.
func vfMapLaws(aroot ast.Node, droot dst.Node, toDst map[ast.Node]dst.Node, toAst map[dst.Node]ast.Node, id string) {
	apar, aorder := vfAstParents(aroot)
	dpar, dorder := vfDstParents(droot)
	for _, a := range aorder {
		if _, isC := a.(*ast.Comment); isC {
			continue
		}
		if _, isC := a.(*ast.CommentGroup); isC {
			continue
		}
		d, ok := toDst[a]
		vfAssert(ok, id+"/every-ast-node-mapped")
		if !ok {
			continue
		}
		vfAssert(vfSameKind(a, d), id+"/corresponding-type")
		vfAssert(toAst[d] == a, id+"/maps-inverse")
		if p, has := apar[a]; has {
			dp, hasd := dpar[d]
			vfAssert(hasd, id+"/parent-child-commutes")
			if hasd {
				vfAssert(toDst[p] == dp, id+"/parent-child-commutes")
			}
		}
	}
	for _, d := range dorder {
		a, ok := toAst[d]
		vfAssert(ok, id+"/every-dst-node-mapped")
		if ok {
			vfAssert(toDst[a] == d, id+"/maps-inverse-dst")
		}
	}
	for k := range toDst {
		vfAssert(!vfIsNil(k), id+"/no-nil-key")
	}
	// the whole maps (not only the entries reachable from the tree) are mutually inverse
	for d, a := range toAst {
		vfAssert(!vfIsNil(d), id+"/no-nil-key")
		vfAssert(toDst[a] == d, id+"/whole-map-inverse")
	}
	vfAssert(len(aorder) == len(dorder), id+"/same-node-count")
}

func vfShape(g *vfGen) {
	switch vfChoice("shape", 3) {
	case 1:
		g.nilField = "*"
		g.listLen = 0
	case 2:
		g.listLen = 2
	}
}

// C03(1): a generic undecorated instance n of each type is restored to a positioned ast; the real
// decorateNode converts that ast back: the result must be deeply equal to n (every scalar field, token
// kind, token existence flag, child and list survives the ast round trip for all flag values), and
// restoring the result again gives an ast equal to the first one.
func vfPerType_C03(typ string) {
	g := &vfGen{prefix: "n", depth: 1, listLen: 1, symFlags: true, symToks: true}
	vfShape(g)
	vfLeafVariant(g, typ) // e.g. explicit / implicit empty statements, an Ellipsis without element
	n := g.Node(typ)
	r := vfRestorer()
	r2 := vfCopyRestorer(r)
	an := r.restoreNode(n, "", "", "", false)
	fd := NewDecorator(nil).newFileDecorator()
	n2, err := fd.decorateNode(nil, "", "", "", an)
	vfAssert(err == nil, "decorate-no-error")
	vfReach("decorated")
	vfAssert(vfDeepEqual(n2, n), "ast-roundtrip-preserves-every-field")
	an2 := r2.restoreNode(n2, "", "", "", false)
	vfAssert(vfDeepEqual(an2, an), "second-restore-equal")
	vfAssert(r2.cursor == r.cursor, "second-restore-equal/cursor")
}

// C11: both directions' node maps (Restorer.Map after restoreNode, Decorator.Map after decorateNode)
// are inverse correspondences between the ast and the dst tree that commute with parent/child
// structure, for a generic instance of every node type.
func vfPerType_C11(typ string) {
	g := &vfGen{prefix: "n", depth: 1, listLen: 1, symFlags: true}
	vfShape(g)
	n := g.Node(typ)
	r := vfRestorer()
	an := r.restoreNode(n, "", "", "", false)
	vfReach("restored")
	vfMapLaws(an, n, r.Dst.Nodes, r.Ast.Nodes, "restorer-maps")
	fd := NewDecorator(nil).newFileDecorator()
	n2, err := fd.decorateNode(nil, "", "", "", an)
	vfAssert(err == nil, "decorate-no-error")
	vfMapLaws(an, n2, fd.Dst.Nodes, fd.Ast.Nodes, "decorator-maps")
}

// ---- C13: Walk / Inspect ---------------------------------------------------------------------

// Recording visitors: every Visit(node) returns a fresh child visitor with its own id, and every call
// records the id of the visitor that received it, so that the visitor identity of the closing
// Visit(nil) (it must be the one returned for the node) is observable.
type vfDstLog struct {
	log   *[]dst.Node
	ids   *[]int
	id    int
	prune int
}

func (v vfDstLog) Visit(n dst.Node) dst.Visitor {
	*v.log = append(*v.log, n)
	*v.ids = append(*v.ids, v.id)
	if n == nil {
		return nil
	}
	if len(*v.log)-1 == v.prune {
		return nil
	}
	return vfDstLog{v.log, v.ids, len(*v.log), v.prune}
}

type vfAstLog struct {
	log   *[]ast.Node
	ids   *[]int
	id    int
	prune int
}

func (v vfAstLog) Visit(n ast.Node) ast.Visitor {
	*v.log = append(*v.log, n)
	*v.ids = append(*v.ids, v.id)
	if n == nil {
		return nil
	}
	if len(*v.log)-1 == v.prune {
		return nil
	}
	return vfAstLog{v.log, v.ids, len(*v.log), v.prune}
}

// C13: dst.Walk over a generic instance (each optional child nil in turn, all nil, none nil) visits
// exactly what go/ast's Walk visits on the corresponding ast, in the same order, with the same nil
// calls, and pruning at any visit index removes exactly the same subtree in both.
func vfPerType_C13(typ string) {
	info := vfNodeInfo[typ]
	g := &vfGen{prefix: "n", depth: 1, listLen: 2}
	// which kind of leaf stands for statement / expression children (e.g. a label in front of a closing
	// brace carries an implicit empty statement; an array length can be an Ellipsis without element)
	vfLeafVariant(g, typ)
	k := vfChoice("nil", len(info.Optional)+2)
	if k == len(info.Optional) {
		g.nilField = "*"
		g.listLen = 0
	} else if k < len(info.Optional) {
		g.nilField = typ + "." + info.Optional[k]
	}
	n := g.Node(typ)
	r := vfRestorer()
	an := r.restoreNode(n, "", "", "", false)

	var dl []dst.Node
	var al []ast.Node
	var di, ai []int
	dst.Walk(vfDstLog{&dl, &di, 0, -1}, n)
	ast.Walk(vfAstLog{&al, &ai, 0, -1}, an)
	vfReach("walked")
	vfAssert(len(dl) == len(al), "same-visit-count")
	for i := range dl {
		if i >= len(al) {
			break
		}
		vfAssert(di[i] == ai[i], "call-received-by-corresponding-visitor")
		if dl[i] == nil || al[i] == nil {
			vfAssert(dl[i] == nil && al[i] == nil, "nil-after-children-matches")
			continue
		}
		vfAssert(r.Dst.Nodes[al[i]] == dl[i], "same-node-same-order")
	}
	// each node once
	seen := map[dst.Node]bool{}
	for _, d := range dl {
		if d != nil {
			vfAssert(!seen[d], "each-node-once")
			seen[d] = true
		}
	}
	// pruning at an arbitrary visit
	if len(dl) > 0 {
		p := vfChoice("prune", len(dl))
		if dl[p] != nil {
			var dl2 []dst.Node
			var al2 []ast.Node
			var di2, ai2 []int
			dst.Walk(vfDstLog{&dl2, &di2, 0, p}, n)
			ast.Walk(vfAstLog{&al2, &ai2, 0, p}, an)
			vfAssert(len(dl2) == len(al2), "prune/same-visit-count")
			for i := range dl2 {
				if i >= len(al2) {
					break
				}
				if dl2[i] == nil || al2[i] == nil {
					vfAssert(dl2[i] == nil && al2[i] == nil, "prune/nil-matches")
					continue
				}
				vfAssert(r.Dst.Nodes[al2[i]] == dl2[i], "prune/same-node-same-order")
			}
		}
	}
	// Inspect is the same traversal
	var il []dst.Node
	dst.Inspect(n, func(x dst.Node) bool { il = append(il, x); return true })
	vfAssert(len(il) == len(dl), "inspect-same-count")
	for i := range il {
		if i < len(dl) {
			vfAssert(il[i] == dl[i], "inspect-same-order")
		}
	}
}

// ---- C04 accessors: dstutil.Decorations and Node.Decorations --------------------------------------

// For every node type: the listing helper returns the node's spacing and its decoration points in the
// order in which the restorer renders them, each backed by the node's own storage, and the
// common-decorations accessor returns the node's own NodeDecs (writes through it are rendered).
func vfPerType_C04Acc(typ string) {
	g := &vfGen{prefix: "n", depth: 1, listLen: 1, decPoint: "^", spaces: true}
	n := g.Node(typ)
	before, after, pts := dstutil.Decorations(n)
	nd := n.Decorations()
	vfAssert(nd != nil, "accessor-non-nil")
	vfAssert(before == nd.Before && after == nd.After, "helper-reports-node-spacing")
	info := vfNodeInfo[typ]
	vfAssert(len(pts) == len(info.Points), "helper-lists-every-point")

	r := vfRestorerMid()
	c0 := len(r.comments)
	r.restoreNode(n, "", "", "", false)
	var rendered []*ast.Comment
	for i := c0; i < len(r.comments); i++ {
		rendered = append(rendered, r.comments[i].List...)
	}
	vfAssert(len(rendered) == len(pts), "one-comment-per-point-rendered")
	for i, p := range pts {
		vfAssert(len(p.Decs) == 1, "helper-point-has-its-decoration")
		if len(p.Decs) != 1 || i >= len(rendered) {
			continue
		}
		vfAssert(rendered[i].Text == p.Decs[0], "helper-order-is-render-order")
		own := vfDecsOf(n, p.Name)
		vfAssert(len(own) == 1 && vfSharesStrings(own, p.Decs), "helper-backed-by-node-storage")
	}
	if len(pts) > 0 {
		vfAssert(pts[0].Name == "Start" && pts[len(pts)-1].Name == "End", "start-first-end-last")
		vfAssert(vfSharesStrings(nd.Start, pts[0].Decs), "accessor-backed-by-node-storage")
		vfAssert(vfSharesStrings(nd.End, pts[len(pts)-1].Decs), "accessor-backed-by-node-storage")
	}
	// writes through the accessor are what gets rendered
	nd.Start.Replace("/*replaced*/")
	r2 := vfRestorerMid()
	c2 := len(r2.comments)
	r2.restoreNode(dst.Clone(n), "", "", "", false)
	vfAssert(len(r2.comments) > c2 && r2.comments[c2].List[0].Text == "/*replaced*/", "accessor-writes-are-rendered")
}


// ---- C11: object links, several files per restorer, qualified identifiers ---------------------------

// VerifC11Objects: declarations whose identifiers carry parser objects (Obj.Decl pointing back to the
// declaring node: labeled statement, function, value spec, type spec, field, short variable
// declaration). Decorating goes through the object link recursively; the node maps must still be
// inverse one-to-one correspondences over the whole map.
func VerifC11Objects() {
	var n dst.Node
	var declOf func(an ast.Node) (*ast.Ident, ast.Node)
	rangeKey := false
	switch vfChoice("decl", 7) {
	case 6:
		// for k := range x {}: the parser gives k an object whose Decl is a synthetic AssignStmt that is
		// not part of the tree and whose Lhs[0] is the very same identifier
		rangeKey = true
		n = &dst.RangeStmt{Key: &dst.Ident{Name: "k"}, Tok: token.DEFINE, X: &dst.Ident{Name: "x"}, Body: &dst.BlockStmt{}}
		declOf = func(an ast.Node) (*ast.Ident, ast.Node) {
			rs := an.(*ast.RangeStmt)
			key := rs.Key.(*ast.Ident)
			return key, &ast.AssignStmt{Lhs: []ast.Expr{key}, Tok: token.DEFINE, Rhs: []ast.Expr{&ast.UnaryExpr{Op: token.RANGE, X: rs.X}}}
		}
	case 0:
		n = &dst.LabeledStmt{Label: &dst.Ident{Name: "L"}, Stmt: &dst.ExprStmt{X: &dst.Ident{Name: "x"}}}
		declOf = func(an ast.Node) (*ast.Ident, ast.Node) { return an.(*ast.LabeledStmt).Label, an }
	case 1:
		n = &dst.FuncDecl{Name: &dst.Ident{Name: "f"}, Type: &dst.FuncType{Func: true, Params: &dst.FieldList{Opening: true, Closing: true}}, Body: &dst.BlockStmt{}}
		declOf = func(an ast.Node) (*ast.Ident, ast.Node) { return an.(*ast.FuncDecl).Name, an }
	case 2:
		n = &dst.ValueSpec{Names: []*dst.Ident{{Name: "v"}}, Type: &dst.Ident{Name: "int"}}
		declOf = func(an ast.Node) (*ast.Ident, ast.Node) { return an.(*ast.ValueSpec).Names[0], an }
	case 3:
		n = &dst.TypeSpec{Name: &dst.Ident{Name: "T"}, Type: &dst.Ident{Name: "int"}}
		declOf = func(an ast.Node) (*ast.Ident, ast.Node) { return an.(*ast.TypeSpec).Name, an }
	case 4:
		n = &dst.Field{Names: []*dst.Ident{{Name: "a"}}, Type: &dst.Ident{Name: "int"}}
		declOf = func(an ast.Node) (*ast.Ident, ast.Node) { return an.(*ast.Field).Names[0], an }
	default:
		n = &dst.AssignStmt{Lhs: []dst.Expr{&dst.Ident{Name: "a"}}, Tok: token.DEFINE, Rhs: []dst.Expr{&dst.Ident{Name: "b"}}}
		declOf = func(an ast.Node) (*ast.Ident, ast.Node) { return an.(*ast.AssignStmt).Lhs[0].(*ast.Ident), an }
	}
	// the declaration sits in a block, optionally after a use of the declared name (forward reference)
	use := &dst.Ident{Name: "use"}
	wrap := &dst.BlockStmt{}
	fwd := vfChoice("forward", 2) == 1
	if fwd {
		wrap.List = append(wrap.List, &dst.ExprStmt{X: use})
	}
	switch x := n.(type) {
	case dst.Stmt:
		wrap.List = append(wrap.List, x)
	case dst.Decl:
		wrap.List = append(wrap.List, &dst.DeclStmt{Decl: x})
	case dst.Spec:
		tok := token.VAR
		if _, ok := x.(*dst.TypeSpec); ok {
			tok = token.TYPE
		}
		wrap.List = append(wrap.List, &dst.DeclStmt{Decl: &dst.GenDecl{Tok: tok, Specs: []dst.Spec{x}}})
	case *dst.Field:
		wrap.List = append(wrap.List, &dst.ExprStmt{X: &dst.FuncLit{Type: &dst.FuncType{Func: true, Params: &dst.FieldList{Opening: true, Closing: true, List: []*dst.Field{x}}}, Body: &dst.BlockStmt{}}})
	}
	if !fwd {
		wrap.List = append(wrap.List, &dst.ExprStmt{X: use})
	}
	r := vfRestorerMid()
	aw := r.restoreNode(wrap, "", "", "", false)
	id, decl := declOf(r.Ast.Nodes[n])
	obj := &ast.Object{Kind: ast.Var, Name: id.Name, Decl: decl}
	id.Obj = obj
	r.Ast.Nodes[use].(*ast.Ident).Obj = obj

	fd := NewDecorator(nil).newFileDecorator()
	out, err := fd.decorateNode(nil, "", "", "", aw)
	vfAssert(err == nil, "decorate-ok")
	vfReach("decorated")
	if rangeKey {
		// the synthetic declaration is outside the tree: the tree-walk laws cover the tree, the whole-map
		// law covers the rest
		for d, a := range fd.Ast.Nodes {
			vfAssert(fd.Dst.Nodes[a] == d, "decorator-maps-with-objects/whole-map-inverse")
		}
		_, dorder := vfDstParents(out)
		for _, d := range dorder {
			a, ok := fd.Ast.Nodes[d]
			vfAssert(ok && fd.Dst.Nodes[a] == d, "decorator-maps-with-objects/maps-inverse-dst")
		}
	} else {
		vfMapLaws(aw, out, fd.Dst.Nodes, fd.Ast.Nodes, "decorator-maps-with-objects")
	}
	do := fd.Dst.Objects[obj]
	vfAssert(do != nil, "object-decorated")
	if do != nil {
		vfAssert(do.Decl == dst.Node(fd.Dst.Nodes[decl]), "object-decl-is-the-tree-node")
	}
}

// VerifC11TwoFiles: one Restorer restores two files: its map describes both.
func VerifC11TwoFiles() {
	mk := func(s string) *dst.File {
		return &dst.File{Name: &dst.Ident{Name: "p"}, Decls: []dst.Decl{&dst.GenDecl{Tok: token.VAR, Specs: []dst.Spec{
			&dst.ValueSpec{Names: []*dst.Ident{{Name: s}}, Type: &dst.Ident{Name: "int"}}}}}}
	}
	f1, f2 := mk("a"), mk("b")
	res := NewRestorer()
	a1, e1 := res.RestoreFile(f1)
	a2, e2 := res.RestoreFile(f2)
	vfAssert(e1 == nil && e2 == nil, "restore-ok")
	for _, pr := range []struct {
		a *ast.File
		d *dst.File
	}{{a1, f1}, {a2, f2}} {
		apar, aorder := vfAstParents(pr.a)
		_ = apar
		for _, a := range aorder {
			d, ok := res.Dst.Nodes[a]
			vfAssert(ok, "two-files/every-ast-node-mapped")
			if ok {
				vfAssert(res.Ast.Nodes[d] == a, "two-files/maps-inverse")
			}
		}
		_, dorder := vfDstParents(pr.d)
		for _, d := range dorder {
			_, ok := res.Ast.Nodes[d]
			vfAssert(ok, "two-files/every-dst-node-mapped")
		}
	}
}

// VerifC11Collapse: with import resolution a qualified identifier pkg.Name collapses onto one dst
// identifier: the selector, its X and its Sel all map to that identifier, the identifier maps back to
// the selector expression, and the correspondence commutes with parent/child structure; the restorer's
// maps obey the same laws for the selector it creates.
func VerifC11Collapse() {
	sel := &dst.SelectorExpr{X: &dst.Ident{Name: "pkg"}, Sel: &dst.Ident{Name: vfOpaque("name", "N")}}
	var n dst.Node
	var parentOf func(an ast.Node) ast.Node
	switch vfChoice("ctx", 3) {
	case 0:
		n = &dst.CallExpr{Fun: sel}
		parentOf = func(an ast.Node) ast.Node { return an }
	case 1:
		n = &dst.ExprStmt{X: &dst.StarExpr{X: sel}}
		parentOf = func(an ast.Node) ast.Node { return an.(*ast.ExprStmt).X }
	default:
		n = &dst.ValueSpec{Names: []*dst.Ident{{Name: "v"}}, Type: sel}
		parentOf = func(an ast.Node) ast.Node { return an }
	}
	r0 := vfRestorerMid()
	an := r0.restoreNode(n, "", "", "", false)
	asel := r0.Ast.Nodes[sel].(*ast.SelectorExpr)

	fd := NewDecorator(nil).newFileDecorator()
	fd.Resolver, fd.Path = vfQualResolver{}, vfLocal
	out, err := fd.decorateNode(nil, "", "", "", an)
	vfAssert(err == nil, "decorate-ok")
	vfReach("decorated")
	id, ok := fd.Dst.Nodes[asel].(*dst.Ident)
	vfAssert(ok, "selector-collapsed-to-ident")
	if !ok {
		return
	}
	vfAssert(id.Path == "x.y/pkg" && id.Name == sel.Sel.Name, "path-and-name")
	vfAssert(fd.Dst.Nodes[asel.X] == dst.Node(id) && fd.Dst.Nodes[asel.Sel] == dst.Node(id), "three-ast-nodes-one-ident")
	vfAssert(fd.Ast.Nodes[id] == ast.Node(asel), "ident-maps-back-to-selector")
	// parent/child commutation
	dpar, dorder := vfDstParents(out)
	vfAssert(dpar[id] == fd.Dst.Nodes[parentOf(an)], "parent-child-commutes")
	for _, d := range dorder {
		a, ok := fd.Ast.Nodes[d]
		vfAssert(ok, "every-dst-node-mapped")
		if ok {
			vfAssert(fd.Dst.Nodes[a] == d, "maps-inverse-dst")
		}
	}
	for k := range fd.Dst.Nodes {
		vfAssert(!vfIsNil(k), "no-nil-key")
	}

	// restore side: expansion back into a selector
	r := vfRestorerMid()
	calls := 0
	r.Resolver, r.Path = vfResolver{names: map[string]string{"x.y/pkg": "pkg"}, failAt: -1, calls: &calls}, vfLocal
	r.packageNames["x.y/pkg"] = "pkg"
	an2 := r.restoreNode(out, "", "", "", false)
	se2, ok := r.Ast.Nodes[id].(*ast.SelectorExpr)
	vfAssert(ok, "restore/ident-expanded-to-selector")
	if !ok {
		return
	}
	vfAssert(r.Dst.Nodes[se2] == dst.Node(id), "restore/selector-maps-to-ident")
	vfAssert(r.Dst.Nodes[se2.X] == dst.Node(id) && r.Dst.Nodes[se2.Sel] == dst.Node(id), "restore/three-ast-nodes-one-ident")
	for k := range r.Dst.Nodes {
		vfAssert(!vfIsNil(k), "restore/no-nil-key")
	}
	_, aorder := vfAstParents(an2)
	for _, a := range aorder {
		_, ok := r.Dst.Nodes[a]
		vfAssert(ok, "restore/every-ast-node-mapped")
	}
}


// VerifC04Qualified: the decoration points of a package-qualified identifier (Start, X, End), which an
// import-managing restorer renders through its selector-expansion code: once, in order, in the gap the
// fragmenter assigns to the point on the restored selector expression; End comments indented.
func VerifC04Qualified() {
	points := []string{"Start", "X", "End"}
	point := points[vfChoice("point", 3)]
	id := &dst.Ident{Name: vfOpaque("name", "N"), Path: "x.y/pkg"}
	decs, _ := vfDecorations("d", 2)
	switch point {
	case "Start":
		id.Decs.Start = decs
	case "X":
		id.Decs.X = decs
	default:
		id.Decs.End = decs
	}
	r := vfRestorer()
	calls := 0
	r.Resolver, r.Path = vfResolver{names: map[string]string{"x.y/pkg": "pkg"}, failAt: -1, calls: &calls}, vfLocal
	r.packageNames["x.y/pkg"] = vfBytes("pkgname", 1, "pq")
	c0, cursor0 := len(r.comments), r.cursor
	an := r.restoreNode(id, "CallExpr", "Fun", "Expr", false)
	se, ok := an.(*ast.SelectorExpr)
	vfAssert(ok, "restored-as-selector")
	if !ok {
		return
	}
	var rendered []*ast.Comment
	for i := c0; i < len(r.comments); i++ {
		rendered = append(rendered, r.comments[i].List...)
	}
	k := 0
	for _, d := range decs {
		if d == "\n" {
			continue
		}
		vfAssert(k < len(rendered), "every-comment-rendered")
		if k < len(rendered) {
			vfAssert(rendered[k].Text == d, "comment-text-and-order")
		}
		k++
	}
	vfAssert(k == len(rendered), "no-comment-duplicated-or-invented")
	lo, hi := cursor0, r.cursor
	switch point {
	case "Start":
		hi = se.X.Pos()
	case "X":
		lo, hi = se.X.End(), se.Sel.Pos()
	default:
		lo = se.Sel.End()
	}
	for _, c := range rendered {
		vfAssert(c.Slash >= lo && c.Slash+token.Pos(len(c.Text)) <= hi, "comment-in-the-gap-of-its-point")
	}
	vfCheckEndIndent(r, point, rendered)
}


// VerifC04FileReuse: one FileRestorer value restores two files; the first file's comments (texts and
// positions) are still the first file's afterwards.
func VerifC04FileReuse() {
	mk := func(tag string, n int) *dst.File {
		f := &dst.File{Name: &dst.Ident{Name: "p"}}
		for i := 0; i < n; i++ {
			gd := &dst.GenDecl{Tok: token.VAR, Specs: []dst.Spec{&dst.ValueSpec{Names: []*dst.Ident{{Name: "v" + tag}}, Type: &dst.Ident{Name: "int"}}}}
			gd.Decs.Start.Append(vfOpaque(tag+"c", "//"+tag))
			gd.Decs.Before = dst.EmptyLine
			f.Decls = append(f.Decls, gd)
		}
		return f
	}
	fa, fb := mk("a", 1+vfChoice("na", 2)), mk("b", 1+vfChoice("nb", 3))
	fr := NewRestorer().FileRestorer()
	a, _ := fr.RestoreFile(fa)
	var texts []string
	var poss []token.Pos
	for _, cg := range a.Comments {
		for _, c := range cg.List {
			texts = append(texts, c.Text)
			poss = append(poss, c.Slash)
		}
	}
	vfAssert(len(texts) == len(fa.Decls), "first-file-comments-rendered")
	_, _ = fr.RestoreFile(fb)
	k := 0
	for _, cg := range a.Comments {
		for _, c := range cg.List {
			vfAssert(k < len(texts), "first-file-comments-unchanged-by-second-restore")
			if k < len(texts) {
				vfAssert(c.Text == texts[k] && c.Slash == poss[k], "first-file-comments-unchanged-by-second-restore")
			}
			k++
		}
	}
	vfAssert(k == len(texts), "first-file-comments-unchanged-by-second-restore")
}

// vfLeafVariant forks over the kind of leaf standing for statement / expression children of typ.
func vfLeafVariant(g *vfGen, typ string) {
	info := vfNodeInfo[typ]
	nv := 1
	if len(info.StmtFields) > 0 {
		nv += 3
	}
	if len(info.ExprFields) > 0 {
		nv += 2
	}
	if v := vfChoice("leafvariant", nv); v > 0 {
		if len(info.StmtFields) > 0 && v <= 3 {
			g.stmtLeaf = v
		} else if len(info.StmtFields) > 0 {
			g.exprLeaf = v - 3
		} else {
			g.exprLeaf = v
		}
	}
}
