package decorator

import (
	"bytes"
	"go/ast"
	"go/token"

	"github.com/dave/dst"
)

// ---- Lemma F / whole pipeline on concrete canonical sources (DESIGN.md section 5, C01) --------------
//
// The real go/parser parses a small gofmt-canonical source (natively inside the engine process, see
// engine/parse.go); the ast is placed at a symbolic FileSet base. Then the real DecorateFile (real
// fragment(), link(), decorateNode) and the real RestoreFile into a second FileSet with its own
// symbolic base run symbolically. The restored ast must equal the parsed one in everything but
// positions (every token, literal, flag; every comment text in order), and the capped line difference
// between consecutive positioned items (tokens that carry a position in go/ast, comments) must be the
// same in both line tables. Under contract PC that is byte identity of the printed text. This is the
// only place where the engine runs near-concretely (sources are fixed, only the bases are symbolic); it
// ties the fragment() scan - which the gap lemma re-creates by a model - to the real code.

var vfSources = []string{
	// 0: comment after the last declaration, trailing and leading comments, blank lines
	"// Package p.\npackage p\n\nimport \"fmt\"\n\n// f does.\nfunc f() {\n\tfmt.Println(1) // one\n\n\t// two\n\tg()\n}\n\n// trailing\n\n// the end\n",
	// 1: multi-line block comment, raw string with newlines, composite literal one per line
	"package p\n\n/*\n block\n*/\nvar s = `a\nb`\n\nvar m = map[string]int{\n\t\"a\": 1, // a\n\t\"b\": 2,\n}\n",
	// 2: switch with hanging comments, labels, if/else
	"package p\n\nfunc f(x int) {\n\tswitch x {\n\tcase 1:\n\t\tg()\n\t\t// hanging\n\tcase 2:\n\t\t// only comment\n\tdefault:\n\t}\nL:\n\tif x > 0 {\n\t\tgoto L\n\t} else {\n\t\t// else comment\n\t}\n}\n",
	// 3: struct, interface, generics, multi-line call
	"package p\n\ntype T[K comparable, V any] struct {\n\ta K // key\n\n\t// value\n\tb V\n}\n\ntype I interface {\n\tM() // m\n}\n\nfunc g() {\n\tf(\n\t\t1, // one\n\t\t2,\n\t)\n\t_ = T[\n\t\tint,\n\t\tstring,\n\t]{}\n}\n",
	// 4: import block with comments and blank line, const block, select
	"package p\n\nimport (\n\t\"a\" // std\n\n\t// third party\n\tb \"x.y/b\"\n)\n\nconst (\n\tA = iota // first\n\tB\n)\n\nfunc h(c chan int) {\n\tselect {\n\tcase <-c:\n\t\t// recv\n\tdefault:\n\t}\n}\n",
	// 5: own-line comments in front of closing parentheses (specs, parameters, arguments), non-ASCII literal
	"package p\n\nvar (\n\ta = 1\n\t// last in block\n)\n\nfunc f(\n\ta int,\n\t// after last parameter\n) {\n\tg(\n\t\t\"h\u00e9llo\", /* c */\n\t\t2,\n\t\t// after last argument\n\t)\n}\n",
}

// two files of one package for the directory / *ast.Package path: a multi-line block comment in the
// first lies on the line numbers on which the second has blank lines and separating line breaks
var vfDirSourceSets = [][2]string{
	{
		"package p\n\n/*\n a\n b\n c\n*/\nvar x = 1\n",
		"package p\n\nvar y = 2\n\n// c\nvar z = 3\n\nvar w = 4\n",
	},
	// a multi-line raw string in the first file lies on the line numbers on which the second file has a
	// blank line and separating line breaks
	{
		"package p\n\nvar s = `one\ntwo\nthree\nfour`\n",
		"package p\n\nfunc f() {\n\tg()\n\n\th()\n}\n",
	},
	// the first file (in file-name order) ends in a comment behind a blank line
	{
		"package p\n\nvar a = 1\n\n// trailing comment of a\n",
		"package p\n\nvar b = 2\n",
	},
}

// vfDirSources: the pair selected for this run (forked)
var vfDirSources [2]string

func vfPickDirSources() {
	vfDirSources = vfDirSourceSets[vfChoice("dirSources", len(vfDirSourceSets))]
}

type vfItemPos struct {
	start, end token.Pos // end is the position of the last byte
	comment    bool
}

func vfItemsOf(f *ast.File) []vfItemPos {
	fd := NewDecorator(nil).newFileDecorator()
	fd.addNodeFragments(f)
	var items []vfItemPos
	for _, fr := range fd.fragments {
		if !vfMeasurable(fr) {
			continue
		}
		pos, l, _ := vfFragExtent(fr)
		if l == 0 {
			continue
		}
		items = append(items, vfItemPos{pos, pos + token.Pos(l) - 1, false})
	}
	for _, cg := range f.Comments {
		for _, c := range cg.List {
			items = append(items, vfItemPos{c.Slash, c.Slash + token.Pos(len(c.Text)) - 1, true})
		}
	}
	// order by start position (insertion sort: both lists are already sorted)
	for i := 1; i < len(items); i++ {
		for j := i; j > 0 && items[j].start < items[j-1].start; j-- {
			items[j], items[j-1] = items[j-1], items[j]
		}
	}
	return items
}

func vfPipeline(src string) {
	fset := token.NewFileSet()
	fset.AddFile("prior.go", -1, vfInt("priorSize", 0, 1<<20))
	f, bad := vfParseInto(fset, src)
	vfAssert(!bad && f != nil, "source-parses")
	if f == nil {
		return
	}
	d := NewDecorator(fset)
	df, err := d.DecorateFile(f)
	vfAssert(err == nil, "decorate-ok")
	if err != nil {
		return
	}
	vfReach("decorated")
	vfCompareRestored(fset, f, df)
}

// vfPipelineDir: the *ast.Package path (what ParseDir does): two files parsed into one FileSet,
// decorated together by the real DecorateNode (map iteration order forked), each restored and compared.
func vfPipelineDir() {
	vfPickDirSources()
	fset := token.NewFileSet()
	fset.AddFile("prior.go", -1, vfInt("priorSize", 0, 1<<20))
	f0, bad0 := vfParseInto(fset, vfDirSources[0])
	f1, bad1 := vfParseInto(fset, vfDirSources[1])
	vfAssert(!bad0 && !bad1 && f0 != nil && f1 != nil, "sources-parse")
	if f0 == nil || f1 == nil {
		return
	}
	pkg := &ast.Package{Name: "p", Files: map[string]*ast.File{"a.go": f0, "b.go": f1}}
	d := NewDecorator(fset)
	vfMapOrderFork(true)
	out, err := d.DecorateNode(pkg)
	vfMapOrderFork(false)
	vfAssert(err == nil, "decorate-ok")
	if err != nil {
		return
	}
	dp := out.(*dst.Package)
	vfAssert(len(dp.Files) == 2, "both-files-decorated")
	vfAssert(d.Filenames[dp.Files["a.go"]] == "a.go" && d.Filenames[dp.Files["b.go"]] == "b.go", "file-names-recorded")
	vfReach("decorated")
	vfCompareRestored(fset, f0, dp.Files["a.go"])
	vfCompareRestored(fset, f1, dp.Files["b.go"])
}

func vfCompareRestored(fset *token.FileSet, f *ast.File, df *dst.File) {
	rfset := token.NewFileSet()
	rfset.AddFile("other.go", -1, vfInt("otherSize", 0, 1<<20))
	res := &Restorer{Map: newMap(), Fset: rfset}
	af, err := res.RestoreFile(df)
	vfAssert(err == nil, "restore-ok")
	if err != nil {
		return
	}
	vfReach("restored")
	// same tree, tokens, literals, flags; comments compared below
	f.Scope, f.Unresolved, f.Imports = nil, nil, nil
	fc, ac := f.Comments, af.Comments
	f.Comments, af.Comments = nil, nil
	f.Doc = nil
	ast.Inspect(f, func(n ast.Node) bool { // comment groups attached to nodes are views of File.Comments
		switch x := n.(type) {
		case *ast.Ident:
			x.Obj = nil
		case *ast.FuncDecl:
			x.Doc = nil
		case *ast.GenDecl:
			x.Doc = nil
		case *ast.Field:
			x.Doc, x.Comment = nil, nil
		case *ast.ImportSpec:
			x.Doc, x.Comment = nil, nil
		case *ast.ValueSpec:
			x.Doc, x.Comment = nil, nil
		case *ast.TypeSpec:
			x.Doc, x.Comment = nil, nil
		case *ast.FuncType:
			if x.TypeParams != nil && len(x.TypeParams.List) == 0 {
				x.TypeParams = nil
			}
		}
		return true
	})
	ast.Inspect(af, func(n ast.Node) bool {
		switch x := n.(type) {
		case *ast.Field:
			x.Comment = nil
		case *ast.ImportSpec:
			x.Comment = nil
		case *ast.ValueSpec:
			x.Comment = nil
		case *ast.TypeSpec:
			x.Comment = nil
		}
		return true
	})
	f.FileStart, f.FileEnd, af.FileStart, af.FileEnd = 0, 0, 0, 0
	f.GoVersion, af.GoVersion = "", ""
	vfAssert(vfSameIgnoringPos(f, af), "same-tokens-and-structure")
	f.Comments, af.Comments = fc, ac
	// comments: same texts in the same order
	var ft, at []string
	for _, cg := range fc {
		for _, c := range cg.List {
			ft = append(ft, c.Text)
		}
	}
	for _, cg := range ac {
		for _, c := range cg.List {
			at = append(at, c.Text)
		}
	}
	vfAssert(len(ft) == len(at), "same-comments")
	for i := range ft {
		if i < len(at) {
			vfAssert(ft[i] == at[i], "same-comments")
		}
	}
	// line structure between consecutive positioned items
	pi, ri := vfItemsOf(f), vfItemsOf(af)
	vfAssert(len(pi) == len(ri), "same-positioned-items")
	if len(pi) != len(ri) {
		return
	}
	for i := 1; i < len(pi); i++ {
		pp, pq := fset.PositionFor(pi[i-1].end, false), fset.PositionFor(pi[i].start, false)
		rp, rq := rfset.PositionFor(ri[i-1].end, false), rfset.PositionFor(ri[i].start, false)
		vfAssert(vfCap2(pq.Line-pp.Line) == vfCap2(rq.Line-rp.Line), "same-line-structure")
		vfAssert(ri[i-1].end < ri[i].start, "restored-items-do-not-overlap")
	}
}

func VerifC01Pipeline0() { vfPipeline(vfSources[0]) }
func VerifC01Pipeline1() { vfPipeline(vfSources[1]) }
func VerifC01Pipeline2() { vfPipeline(vfSources[2]) }
func VerifC01Pipeline3() { vfPipeline(vfSources[3]) }
func VerifC01Pipeline4() { vfPipeline(vfSources[4]) }
func VerifC01Pipeline5() { vfPipeline(vfSources[5]) }
func VerifC01PipelineDir() { vfPipelineDir() }

// VerifC15LineDirective: a //line directive that moves the reported line numbers far beyond the physical
// line count (generated code): fragment() works with the adjusted positions the FileSet reports; the
// pipeline must neither panic nor lose the line structure.
func VerifC15LineDirective() {
	vfPipeline("package p\n\n//line gram.y:100\nvar x int\n\n// doc\nvar y = `a\nb`\n\nvar z int\n")
}
func VerifC01LineDirective() { VerifC15LineDirective() }

var _ = dst.NewIdent

// ---- the public entry points (string helpers, explicit decorator with a caller's FileSet, directory) ----

// VerifC01Entry: the same comparison through the public wrappers. go/parser.ParseFile / ParseDir are
// the real parser run natively inside the engine on concrete sources (ParseDir over the in-memory file
// system), so Parse, ParseFile, ParseDir, Decorate*, RestoreFile and Fprint are executed from their real
// code. The printed bytes themselves are contract PC (format.Node is an uninterpreted function).
func VerifC01Entry() {
	src := vfSources[vfChoice("source", 3)]
	reference := func() (*token.FileSet, *ast.File) {
		fs := token.NewFileSet()
		f, _ := vfParseInto(fs, src)
		return fs, f
	}
	switch vfChoice("entry", 4) {
	case 0: // string helper
		df, err := Parse(src)
		vfAssert(err == nil && df != nil, "Parse-ok")
		if err != nil {
			return
		}
		fs, f := reference()
		vfCompareRestored(fs, f, df)
		var buf bytes.Buffer
		vfAssert(Fprint(&buf, dst.Clone(df).(*dst.File)) == nil, "Fprint-ok")
	case 1: // helper with a caller-supplied FileSet that already holds a file
		fset := token.NewFileSet()
		fset.AddFile("prior.go", -1, vfInt("priorSize", 0, 1<<20))
		df, err := ParseFile(fset, "x.go", src, 0)
		vfAssert(err == nil && df != nil, "ParseFile-ok")
		if err != nil {
			return
		}
		fs, f := reference()
		vfCompareRestored(fs, f, df)
	case 2: // explicit decorator + DecorateFile of an ast the caller parsed, source given as []byte
		fset := token.NewFileSet()
		d := NewDecorator(fset)
		df, err := d.ParseFile("y.go", []byte(src), 0)
		vfAssert(err == nil && df != nil, "Decorator.ParseFile-ok")
		if err != nil {
			return
		}
		vfAssert(d.Filenames[df] == "y.go", "file-name-recorded")
		fs, f := reference()
		vfCompareRestored(fs, f, df)
	default: // directory
		vfEntryDir()
	}
}

// vfEntryDir: Decorator.ParseDir over two files of one package.
func vfEntryDir() {
	{
		vfPickDirSources()
		root := vfFSRoot()
		vfFSPut(root+"/a.go", vfDirSources[0])
		vfFSPut(root+"/b.go", vfDirSources[1])
		fset := token.NewFileSet()
		d := NewDecorator(fset)
		pkgs, err := d.ParseDir(root, nil, 0)
		vfAssert(err == nil, "ParseDir-ok")
		if err != nil {
			return
		}
		dp := pkgs["p"]
		vfAssert(len(pkgs) == 1 && dp != nil && len(dp.Files) == 2, "ParseDir-one-package-two-files")
		if dp == nil || len(dp.Files) != 2 {
			return
		}
		// the package and its files are in the decorator's maps (C11) and the file names are recorded
		ap, ok := d.Ast.Nodes[dp].(*ast.Package)
		vfAssert(ok && ap != nil, "ParseDir-package-in-node-map")
		if ok && ap != nil {
			vfAssert(d.Dst.Nodes[ap] == dst.Node(dp), "ParseDir-package-in-node-map")
			for name, df := range dp.Files {
				vfAssert(d.Ast.Nodes[df] == ast.Node(ap.Files[name]), "ParseDir-files-correspond")
				vfAssert(d.Filenames[df] == name, "file-name-recorded")
			}
		}
		for i, name := range []string{root + "/a.go", root + "/b.go"} {
			fs := token.NewFileSet()
			f, _ := vfParseInto(fs, vfDirSources[i])
			df := dp.Files[name]
			vfAssert(df != nil, "ParseDir-file-present")
			if df != nil {
				vfCompareRestored(fs, f, df)
			}
		}
	}
}

// VerifC11ParseDir: the package node and its files are in the decorator's node maps after ParseDir.
func VerifC11ParseDir() { vfEntryDir() }

// VerifC01Hanging: the hanging-comment layouts of clause lists (see VerifC02Hanging) are part of the
// decorate/restore identity too: which clause a comment is stored in decides where it is printed.
func VerifC01Hanging() { VerifC02Hanging() }
