package goast

import (
	"errors"
	"go/ast"
	"go/token"

	"github.com/dave/dst/decorator/resolver/guess"
)

func vfFile(alias string) (*ast.File, *ast.SelectorExpr) {
	spec := &ast.ImportSpec{Path: &ast.BasicLit{Kind: token.STRING, Value: "\"x.y/lib\""}}
	if alias != "" {
		spec.Name = &ast.Ident{Name: alias}
	}
	name := alias
	if name == "" {
		name = "lib"
	}
	se := &ast.SelectorExpr{X: &ast.Ident{Name: name}, Sel: &ast.Ident{Name: "N"}}
	f := &ast.File{Name: &ast.Ident{Name: "p"}, Decls: []ast.Decl{
		&ast.GenDecl{Tok: token.IMPORT, Specs: []ast.Spec{spec}},
		&ast.GenDecl{Tok: token.VAR, Specs: []ast.Spec{&ast.ValueSpec{Names: []*ast.Ident{{Name: "_"}}, Values: []ast.Expr{se}}}},
	}}
	return f, se
}

// VerifC16SharedResolver: two goroutines decorate different files (or the same file) and share one syntax-based
// identifier resolver (created with New(), or WithResolver(read-only guess map)); each makes one or
// two ResolveIdent calls. No data race in any schedule; each result equals the call made alone.
func VerifC16SharedResolver() {
	var r *DecoratorResolver
	if vfChoice("ctor", 2) == 0 {
		r = New()
	} else {
		r = WithResolver(guess.WithMap(map[string]string{"x.y/lib": "lib"}))
	}
	f1, s1 := vfFile("")
	f2, s2 := vfFile("al")
	if vfChoice("sameFile", 2) == 1 {
		// both goroutines work on the same file (two decorators decorating one parsed file)
		f2, s2 = f1, s1
	}
	calls := 1 + vfChoice("calls", 2)
	var p1, p2 string
	var e1, e2 error
	vfShared(r)
	vfParallel(func() {
		for i := 0; i < calls; i++ {
			p1, e1 = r.ResolveIdent(f1, s1, "Sel", s1.Sel)
		}
	}, func() {
		for i := 0; i < calls; i++ {
			p2, e2 = r.ResolveIdent(f2, s2, "Sel", s2.Sel)
		}
	})
	vfReach("ran")
	vfAssert(vfRaceFree(), "no-data-race")
	// each result equals that of the same call made alone
	a1, ae1 := New().ResolveIdent(f1, s1, "Sel", s1.Sel)
	a2, ae2 := New().ResolveIdent(f2, s2, "Sel", s2.Sel)
	vfAssert(p1 == a1 && (e1 == nil) == (ae1 == nil), "result-equals-call-made-alone")
	vfAssert(p2 == a2 && (e2 == nil) == (ae2 == nil), "result-equals-call-made-alone")
	vfAssert(p1 == "x.y/lib" && p2 == "x.y/lib", "resolved")
}

type vfFlaky struct {
	failAt int
	calls  *int
	err    error
}

func (v vfFlaky) ResolvePackage(path string) (string, error) {
	k := *v.calls
	*v.calls = k + 1
	if k == v.failAt {
		return "", v.err
	}
	if path == "x.y/lib" {
		return "lib", nil
	}
	return "other", nil
}

// VerifC17Goast: the package-name resolver behind a syntax-based identifier resolver fails at its k-th
// call (the failure is transient: later calls work). ResolveIdent must return the error, and a retry on
// the same file - with the same resolver instance, as a fresh decorator sharing it would do - must give
// exactly what a failure-free run gives.
func VerifC17Goast() {
	mk := func() (*ast.File, []*ast.SelectorExpr) {
		s1 := &ast.ImportSpec{Path: &ast.BasicLit{Kind: token.STRING, Value: "\"x.y/other\""}}
		s2 := &ast.ImportSpec{Path: &ast.BasicLit{Kind: token.STRING, Value: "\"x.y/lib\""}}
		se1 := &ast.SelectorExpr{X: &ast.Ident{Name: "other"}, Sel: &ast.Ident{Name: "A"}}
		se2 := &ast.SelectorExpr{X: &ast.Ident{Name: "lib"}, Sel: &ast.Ident{Name: "B"}}
		f := &ast.File{Name: &ast.Ident{Name: "p"}, Decls: []ast.Decl{
			&ast.GenDecl{Tok: token.IMPORT, Lparen: 1, Specs: []ast.Spec{s1, s2}},
			&ast.GenDecl{Tok: token.VAR, Specs: []ast.Spec{&ast.ValueSpec{Names: []*ast.Ident{{Name: "_"}, {Name: "_"}}, Values: []ast.Expr{se1, se2}}}},
		}}
		return f, []*ast.SelectorExpr{se1, se2}
	}
	// failure-free reference
	c0 := 0
	r0 := WithResolver(vfFlaky{failAt: -1, calls: &c0})
	f0, sels0 := mk()
	var want []string
	for _, s := range sels0 {
		p, err := r0.ResolveIdent(f0, s, "Sel", s.Sel)
		vfAssert(err == nil, "reference-run-ok")
		want = append(want, p)
	}
	if c0 == 0 {
		return
	}
	k := vfChoice("failAt", c0)
	c1 := 0
	r1 := WithResolver(vfFlaky{failAt: k, calls: &c1, err: errors.New("injected")})
	f1, sels1 := mk()
	_, err := r1.ResolveIdent(f1, sels1[0], "Sel", sels1[0].Sel)
	vfAssert(err != nil, "failure-returns-error")
	// retry: the resolver now works (its k-th call is behind it)
	for i, s := range sels1 {
		p, err := r1.ResolveIdent(f1, s, "Sel", s.Sel)
		vfAssert(err == nil, "retry-ok")
		vfAssert(p == want[i], "retry-equals-failure-free-run")
	}
}
