package gotypes

import (
	"go/ast"
	"go/token"
	"go/types"
)

func VerifC09Probe() {
	pkg := types.NewPackage("x.y/lib", "lib")
	pn := types.NewPkgName(token.NoPos, nil, "lib", pkg)
	x := &ast.Ident{Name: "lib"}
	sel := &ast.Ident{Name: "N"}
	se := &ast.SelectorExpr{X: x, Sel: sel}
	r := New(map[*ast.Ident]types.Object{x: pn})
	p, err := r.ResolveIdent(nil, se, "Sel", sel)
	vfAssert(err == nil && p == "x.y/lib", "probe")
}
