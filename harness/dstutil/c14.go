package dstutil

import (
	"go/ast"
	"go/token"
	"strconv"

	"github.com/dave/dst"
	"golang.org/x/tools/go/ast/astutil"
)

// C14 (1): list-edit semantics, differential against golang.org/x/tools astutil.Apply (the version
// /repo's go.mod pins) on the mirrored go/ast tree. A list of n elements (statements of a block, or
// arguments of a call); at one forked element and one forked phase (pre/post) a forked sequence of
// <= 2 cursor operations is issued and the callback returns a forked boolean; everything else is a
// no-op. Both implementations run the same script; callback logs (phase, node id, Name, Index) and
// final lists must be equal, and at every callback Parent().Name[Index] must be Node().

type vfLogEntry struct {
	phase int
	id    int
	name  string
	index int
}

const (
	vfOpReplace = iota
	vfOpDelete
	vfOpInsertBefore
	vfOpInsertAfter
)

type vfScript struct {
	target  int // element id at which the operations happen
	phase   int // 0 pre, 1 post
	ops     []int
	ret     bool
	fresh   int // next id for inserted nodes
	applied bool
}

func vfMkScript(n int) *vfScript {
	s := &vfScript{target: vfChoice("target", n), phase: vfChoice("phase", 2), fresh: 100}
	nops := vfChoice("nops", 3)
	for i := 0; i < nops; i++ {
		s.ops = append(s.ops, vfChoice("op"+strconv.Itoa(i), 4))
	}
	s.ret = vfChoice("ret", 2) == 1
	return s
}

func VerifC14List() {
	kind := vfChoice("kind", 2) // 0: BlockStmt.List, 1: CallExpr.Args
	n := 1 + vfChoice("n", 3+vfTier())
	sc := vfMkScript(n)

	// ---- dst side
	dids := map[dst.Node]int{}
	var droot dst.Node
	var dlist func() []dst.Node
	if kind == 0 {
		b := &dst.BlockStmt{}
		for i := 0; i < n; i++ {
			s := &dst.ExprStmt{X: &dst.Ident{Name: "s" + strconv.Itoa(i)}}
			dids[s], dids[s.X] = i, 50+i
			b.List = append(b.List, s)
		}
		droot = b
		dlist = func() []dst.Node {
			var out []dst.Node
			for _, s := range b.List {
				out = append(out, s)
			}
			return out
		}
	} else {
		c := &dst.CallExpr{Fun: &dst.Ident{Name: "f"}}
		dids[c.Fun] = 40
		for i := 0; i < n; i++ {
			a := &dst.Ident{Name: "a" + strconv.Itoa(i)}
			dids[a] = i
			c.Args = append(c.Args, a)
		}
		droot = c
		dlist = func() []dst.Node {
			var out []dst.Node
			for _, s := range c.Args {
				out = append(out, s)
			}
			return out
		}
	}
	dids[droot] = 30
	var dlog []vfLogEntry
	dsc := *sc
	dnew := func() dst.Node {
		var x dst.Node
		if kind == 0 {
			x = &dst.ExprStmt{X: &dst.Ident{Name: "new"}}
		} else {
			x = &dst.Ident{Name: "new"}
		}
		dids[x] = dsc.fresh
		dsc.fresh++
		return x
	}
	dcb := func(phase int) ApplyFunc {
		return func(c *Cursor) bool {
			id, known := dids[c.Node()]
			if !known {
				id = -1
			}
			dlog = append(dlog, vfLogEntry{phase, id, c.Name(), c.Index()})
			// Parent().Name[Index] == Node() (until the script has edited this very element: afterwards
			// astutil's documented behaviour is that the cursor keeps the original node)
			if c.Index() >= 0 && !(dsc.applied && id == dsc.target) {
				switch p := c.Parent().(type) {
				case *dst.BlockStmt:
					vfAssert(c.Name() == "List" && c.Index() < len(p.List) && dst.Node(p.List[c.Index()]) == c.Node(), "cursor-locates-node")
				case *dst.CallExpr:
					vfAssert(c.Name() == "Args" && c.Index() < len(p.Args) && dst.Node(p.Args[c.Index()]) == c.Node(), "cursor-locates-node")
				}
			}
			if id == dsc.target && phase == dsc.phase && !dsc.applied {
				dsc.applied = true
				for _, op := range dsc.ops {
					switch op {
					case vfOpReplace:
						c.Replace(dnew())
					case vfOpDelete:
						c.Delete()
					case vfOpInsertBefore:
						c.InsertBefore(dnew())
					case vfOpInsertAfter:
						c.InsertAfter(dnew())
					}
				}
				return dsc.ret
			}
			return true
		}
	}
	var dres dst.Node
	dpan := vfExpectPanic(func() { dres = Apply(droot, dcb(0), dcb(1)) })

	// ---- ast side (reference)
	aids := map[ast.Node]int{}
	var aroot ast.Node
	var alist func() []ast.Node
	if kind == 0 {
		b := &ast.BlockStmt{}
		for i := 0; i < n; i++ {
			s := &ast.ExprStmt{X: &ast.Ident{Name: "s" + strconv.Itoa(i)}}
			aids[s], aids[s.X] = i, 50+i
			b.List = append(b.List, s)
		}
		aroot = b
		alist = func() []ast.Node {
			var out []ast.Node
			for _, s := range b.List {
				out = append(out, s)
			}
			return out
		}
	} else {
		c := &ast.CallExpr{Fun: &ast.Ident{Name: "f"}}
		aids[c.Fun] = 40
		for i := 0; i < n; i++ {
			a := &ast.Ident{Name: "a" + strconv.Itoa(i)}
			aids[a] = i
			c.Args = append(c.Args, a)
		}
		aroot = c
		alist = func() []ast.Node {
			var out []ast.Node
			for _, s := range c.Args {
				out = append(out, s)
			}
			return out
		}
	}
	aids[aroot] = 30
	var alog []vfLogEntry
	asc := *sc
	anew := func() ast.Node {
		var x ast.Node
		if kind == 0 {
			x = &ast.ExprStmt{X: &ast.Ident{Name: "new"}}
		} else {
			x = &ast.Ident{Name: "new"}
		}
		aids[x] = asc.fresh
		asc.fresh++
		return x
	}
	acb := func(phase int) astutil.ApplyFunc {
		return func(c *astutil.Cursor) bool {
			id, known := aids[c.Node()]
			if !known {
				id = -1
			}
			alog = append(alog, vfLogEntry{phase, id, c.Name(), c.Index()})
			if id == asc.target && phase == asc.phase && !asc.applied {
				asc.applied = true
				for _, op := range asc.ops {
					switch op {
					case vfOpReplace:
						c.Replace(anew())
					case vfOpDelete:
						c.Delete()
					case vfOpInsertBefore:
						c.InsertBefore(anew())
					case vfOpInsertAfter:
						c.InsertAfter(anew())
					}
				}
				return asc.ret
			}
			return true
		}
	}
	var ares ast.Node
	apan := vfExpectPanic(func() { ares = astutil.Apply(aroot, acb(0), acb(1)) })
	vfReach("both-ran")

	// ---- compare
	vfAssert(dpan == apan, "panics-like-astutil")
	vfAssert(len(dlog) == len(alog), "same-number-of-callbacks")
	for i := range dlog {
		if i >= len(alog) {
			break
		}
		vfAssert(dlog[i].phase == alog[i].phase && dlog[i].id == alog[i].id, "same-node-same-phase")
		vfAssert(dlog[i].name == alog[i].name && dlog[i].index == alog[i].index, "same-name-and-index")
	}
	dl, al := dlist(), alist()
	vfAssert(len(dl) == len(al), "same-final-list-length")
	for i := range dl {
		if i >= len(al) {
			break
		}
		di, dok := dids[dl[i]]
		ai, aok := aids[al[i]]
		vfAssert(dok == aok && di == ai, "same-final-list")
	}
	if !dpan {
		vfAssert(dres == droot, "tree-returned")
		_ = ares
	}
	// direct statements for single operations: each original visited at most once in pre, inserted and
	// replacement nodes never (for sequences of several operations on one element astutil's own
	// behaviour is the specification, see the differential assertions above)
	if len(sc.ops) > 1 {
		return
	}
	for i := 0; i < n; i++ {
		cnt := 0
		for _, e := range dlog {
			if e.phase == 0 && e.id == i {
				cnt++
			}
		}
		vfAssert(cnt <= 1, "no-element-visited-twice")
	}
	for _, e := range dlog {
		vfAssert(e.id < 100, "inserted-and-replacement-nodes-never-visited")
	}
	_ = token.NoPos
}

// C14 (2): per node type, Apply (pre only) visits the children of a generic instance in the order of
// dst.Walk, and at every callback Name() is the field of Parent() that holds Node() (element Index()
// of it for list fields); the post order is the exact mirror (children before parents).
func vfPerType_C14(typ string) {
	g := &vfGen{prefix: "n", depth: 1, listLen: 2}
	if vfChoice("nil", 2) == 1 {
		g.nilField = "*"
		g.listLen = 1
	}
	if info := vfNodeInfo[typ]; len(info.StmtFields) > 0 {
		g.stmtLeaf = vfChoice("stmtleaf", 4)
	}
	n := g.Node(typ)
	var walk []dst.Node
	dst.Inspect(n, func(x dst.Node) bool {
		if x != nil {
			walk = append(walk, x)
		}
		return true
	})
	var pre, post []dst.Node
	// like astutil, Apply also calls the callbacks with a nil Node for absent optional children; those
	// calls are not part of the node sequence
	res := Apply(n, func(c *Cursor) bool {
		if c.Node() == nil {
			return true
		}
		pre = append(pre, c.Node())
		if c.Node() != n {
			held := vfFieldElem(c.Parent(), c.Name(), c.Index())
			hn, _ := held.(dst.Node)
			vfAssert(hn == c.Node(), "name-and-index-locate-node")
		}
		return true
	}, func(c *Cursor) bool {
		if c.Node() != nil {
			post = append(post, c.Node())
		}
		return true
	})
	vfReach("applied")
	vfAssert(res == n, "tree-returned")
	vfAssert(len(pre) == len(walk), "apply-visits-what-walk-visits")
	for i := range pre {
		if i < len(walk) {
			vfAssert(pre[i] == walk[i], "apply-order-is-walk-order")
		}
	}
	vfAssert(len(post) == len(pre), "post-called-for-every-node")
	// post order: a node's post comes after the posts of all its descendants: check via last-visit index
	seen := map[dst.Node]bool{}
	for _, p := range post {
		vfAssert(!seen[p], "post-once")
		seen[p] = true
	}
	if len(post) > 0 {
		vfAssert(post[len(post)-1] == n, "root-post-last")
	}
	// returning false from pre skips children and post of that node only
	if len(walk) > 1 {
		k := 1 + vfChoice("skip", len(walk)-1)
		var pre2, post2 []dst.Node
		i := 0
		Apply(n, func(c *Cursor) bool {
			if c.Node() == nil {
				return true
			}
			pre2 = append(pre2, c.Node())
			i++
			return i-1 != k
		}, func(c *Cursor) bool {
			if c.Node() != nil {
				post2 = append(post2, c.Node())
			}
			return true
		})
		skipped := walk[k]
		for _, p := range post2 {
			vfAssert(p != skipped, "no-post-after-pre-false")
		}
		below := map[dst.Node]bool{}
		dst.Inspect(skipped, func(x dst.Node) bool {
			if x != nil && x != skipped {
				below[x] = true
			}
			return true
		})
		for _, p := range pre2 {
			vfAssert(!below[p], "children-skipped-after-pre-false")
		}
		vfAssert(len(pre2) == len(walk)-len(below), "only-that-subtree-skipped")
	}
	// post returning false stops the traversal but still returns the tree
	if len(walk) > 0 {
		k := vfChoice("abort", len(walk))
		j := 0
		var res2 dst.Node
		pan := vfExpectPanic(func() {
			res2 = Apply(n, nil, func(c *Cursor) bool {
				if c.Node() == nil {
					return true
				}
				j++
				return j-1 != k
			})
		})
		vfAssert(!pan, "abort-does-not-panic")
		vfAssert(res2 == n, "abort-returns-tree")
		vfAssert(j == k+1, "abort-stops-traversal")
	}
}

// VerifC14Root: the root itself is replaced from pre or post (forked), and the traversal is aborted by a
// post callback returning false at a forked node (or not at all): Apply must return what astutil.Apply
// returns - the replacement.
func VerifC14Root() {
	when := vfChoice("replaceIn", 2) // 0 pre, 1 post
	abortAt := vfChoice("abortAt", 4) // post call index at which false is returned (3 = never)
	// dst
	dOld := &dst.ParenExpr{X: &dst.Ident{Name: "x"}}
	dNew := &dst.Ident{Name: "replacement"}
	dpost := 0
	dres := Apply(dOld, func(c *Cursor) bool {
		if c.Node() == dst.Node(dOld) && when == 0 {
			c.Replace(dNew)
		}
		return true
	}, func(c *Cursor) bool {
		if c.Node() == dst.Node(dOld) && when == 1 {
			c.Replace(dNew)
		}
		dpost++
		return dpost-1 != abortAt
	})
	// ast
	aOld := &ast.ParenExpr{X: &ast.Ident{Name: "x"}}
	aNew := &ast.Ident{Name: "replacement"}
	apost := 0
	ares := astutil.Apply(aOld, func(c *astutil.Cursor) bool {
		if c.Node() == ast.Node(aOld) && when == 0 {
			c.Replace(aNew)
		}
		return true
	}, func(c *astutil.Cursor) bool {
		if c.Node() == ast.Node(aOld) && when == 1 {
			c.Replace(aNew)
		}
		apost++
		return apost-1 != abortAt
	})
	vfAssert(dpost == apost, "same-number-of-post-calls")
	vfAssert((dres == dst.Node(dNew)) == (ares == ast.Node(aNew)), "returns-what-astutil-returns")
	vfAssert((dres == dst.Node(dOld)) == (ares == ast.Node(aOld)), "returns-what-astutil-returns")
}


// VerifC14Package: a *dst.Package root (files visited in file-name order, Name() = file name,
// Index() < 0, Replace/Delete act on the Files map), differential against astutil on the mirrored
// *ast.Package: same callbacks (including calls with a nil node), same names, same final file maps.
func VerifC14Package() {
	nfiles := 1 + vfChoice("nfiles", 2)
	names := []string{"b.go", "a.go"}
	dp := &dst.Package{Name: "p", Files: map[string]*dst.File{}}
	ap := &ast.Package{Name: "p", Files: map[string]*ast.File{}}
	dids := map[dst.Node]int{}
	aids := map[ast.Node]int{}
	for i := 0; i < nfiles; i++ {
		df := &dst.File{Name: &dst.Ident{Name: "p"}}
		af := &ast.File{Name: &ast.Ident{Name: "p"}}
		dp.Files[names[i]], ap.Files[names[i]] = df, af
		dids[df], aids[af] = i, i
		dids[df.Name], aids[af.Name] = 10+i, 10+i
	}
	dids[dp], aids[ap] = 30, 30
	op := vfChoice("op", 3) // at the first file visited: 0 nothing, 1 delete, 2 replace
	target := vfChoice("target", nfiles)
	var dlog, alog []vfLogEntry
	dnew := &dst.File{Name: &dst.Ident{Name: "q"}}
	anew := &ast.File{Name: &ast.Ident{Name: "q"}}
	Apply(dp, func(c *Cursor) bool {
		id := -1
		if c.Node() != nil {
			if k, ok := dids[c.Node()]; ok {
				id = k
			}
		}
		dlog = append(dlog, vfLogEntry{0, id, c.Name(), c.Index()})
		if id == target {
			switch op {
			case 1:
				c.Delete()
			case 2:
				c.Replace(dnew)
			}
		}
		return true
	}, func(c *Cursor) bool {
		id := -1
		if c.Node() != nil {
			if k, ok := dids[c.Node()]; ok {
				id = k
			}
		}
		dlog = append(dlog, vfLogEntry{1, id, c.Name(), c.Index()})
		return true
	})
	astutil.Apply(ap, func(c *astutil.Cursor) bool {
		id := -1
		if c.Node() != nil {
			if k, ok := aids[c.Node()]; ok {
				id = k
			}
		}
		// go/ast nodes have Doc / Comment fields that dst does not have: astutil's calls for those
		// (always nil here) have no counterpart
		if c.Name() != "Doc" && c.Name() != "Comment" {
			alog = append(alog, vfLogEntry{0, id, c.Name(), c.Index()})
		}
		if id == target {
			switch op {
			case 1:
				c.Delete()
			case 2:
				c.Replace(anew)
			}
		}
		return true
	}, func(c *astutil.Cursor) bool {
		id := -1
		if c.Node() != nil {
			if k, ok := aids[c.Node()]; ok {
				id = k
			}
		}
		if c.Name() != "Doc" && c.Name() != "Comment" {
			alog = append(alog, vfLogEntry{1, id, c.Name(), c.Index()})
		}
		return true
	})
	vfReach("both-ran")
	vfAssert(len(dlog) == len(alog), "package/same-number-of-callbacks")
	for i := range dlog {
		if i < len(alog) {
			vfAssert(dlog[i] == alog[i], "package/same-callback")
		}
	}
	vfAssert(len(dp.Files) == len(ap.Files), "package/same-file-map-size")
	for name, af := range ap.Files {
		df, ok := dp.Files[name]
		vfAssert(ok, "package/same-file-map")
		if ok {
			vfAssert((af == anew) == (df == dnew), "package/same-file-map")
		}
	}
}
