package dst

import (
	"errors"
	"go/ast"
	"go/scanner"
	"go/token"
	"strconv"
)

// C18 (2): building a package from decorated files yields the same package scope and the same
// redeclaration / undeclared-name / import reports as go/ast's NewPackage does for the originals.
// 1-2 files (package names symbolic so that the "expected package" branch is covered), each with 0-2
// file-scope objects and 0-2 unresolved identifiers whose names are symbolic one-byte strings (so that
// redeclarations across files and resolution are solver-decided), 0-1 import spec (plain / aliased /
// dot / blank), importer nil, failing, or a stub returning a package object with a small scope.

type vfFileDesc struct {
	pkg      string
	objNames []string
	objKinds []int
	unres    []string
	imp      int // 0 none, 1 plain, 2 alias, 3 dot, 4 blank
	alias    string
}

func VerifC18NewPackage() {
	nfiles := 1 + vfChoice("nfiles", 2)
	impMode := vfChoice("importer", 3) // 0 nil, 1 failing, 2 stub
	hasUniverse := vfChoice("universe", 2) == 1
	universeName := ""
	if hasUniverse {
		universeName = vfBytes("universeName", 1, "abx")
	}
	small := vfTier() == 0 && nfiles == 2 && hasUniverse // quick: keep the two-file + universe case small
	var descs []vfFileDesc
	for i := 0; i < nfiles; i++ {
		tag := "f" + strconv.Itoa(i)
		d := vfFileDesc{pkg: vfBytes(tag+".pkg", 1, "pq")}
		if i > 0 {
			// files of one package: with differing package clauses the outcome depends on Go's map
			// iteration order in both implementations alike, which a native replay cannot pin down
			vfAssume(d.pkg == descs[0].pkg)
		}
		nobj := 0
		if !small {
			if i == 0 {
				nobj = vfChoice(tag+".nobj", 2+vfTier())
			} else {
				nobj = vfChoice(tag+".nobj", 2) // second file: at most one object (keeps the thorough tier inside its time budget)
			}
		}
		for j := 0; j < nobj; j++ {
			name := vfBytes(tag+".obj"+strconv.Itoa(j), 1, "ab")
			if j == 1 {
				vfAssume(name != d.objNames[0]) // a scope cannot hold two objects of one name
			}
			d.objNames = append(d.objNames, name)
			d.objKinds = append(d.objKinds, vfInt(tag+".kind"+strconv.Itoa(j), 1, 6))
		}
		nun := vfChoice(tag+".nun", 2+vfTier())
		for j := 0; j < nun; j++ {
			d.unres = append(d.unres, vfBytes(tag+".un"+strconv.Itoa(j), 1, "abx"))
		}
		if vfChoice(tag+".import", 2) == 1 {
			d.imp = 1 + vfChoice(tag+".impname", 4)
			if d.imp == 2 {
				d.alias = vfBytes(tag+".alias", 1, "ax")
			}
		}
		descs = append(descs, d)
	}
	libMember := vfBytes("libMember", 1, "ax")

	// both implementations iterate over the files map: natively Go's randomised order is sampled repeatedly
	for rep := 0; rep < vfNativeRepeats(); rep++ {
		vfNewPackageOnce(descs, impMode, hasUniverse, universeName, libMember)
	}
}

func vfNewPackageOnce(descs []vfFileDesc, impMode int, hasUniverse bool, universeName, libMember string) {
	dfiles := map[string]*File{}
	afiles := map[string]*ast.File{}
	for i, d := range descs {
		tag := "f" + strconv.Itoa(i)
		df := &File{Name: &Ident{Name: d.pkg}, Scope: NewScope(nil)}
		af := &ast.File{Name: &ast.Ident{Name: d.pkg}, Scope: ast.NewScope(nil)}
		for j, name := range d.objNames {
			df.Scope.Insert(&Object{Kind: ObjKind(d.objKinds[j]), Name: name})
			af.Scope.Insert(&ast.Object{Kind: ast.ObjKind(d.objKinds[j]), Name: name})
		}
		for _, name := range d.unres {
			df.Unresolved = append(df.Unresolved, &Ident{Name: name})
			af.Unresolved = append(af.Unresolved, &ast.Ident{Name: name})
		}
		if d.imp != 0 {
			ds := &ImportSpec{Path: &BasicLit{Kind: token.STRING, Value: "\"lib\""}}
			as := &ast.ImportSpec{Path: &ast.BasicLit{Kind: token.STRING, Value: "\"lib\""}}
			switch d.imp {
			case 2:
				ds.Name, as.Name = &Ident{Name: d.alias}, &ast.Ident{Name: d.alias}
			case 3:
				ds.Name, as.Name = &Ident{Name: "."}, &ast.Ident{Name: "."}
			case 4:
				ds.Name, as.Name = &Ident{Name: "_"}, &ast.Ident{Name: "_"}
			}
			df.Imports, af.Imports = []*ImportSpec{ds}, []*ast.ImportSpec{as}
		}
		dfiles[tag+".go"] = df
		afiles[tag+".go"] = af
	}
	var dimp Importer
	var aimp ast.Importer
	switch impMode {
	case 1:
		dimp = func(imports map[string]*Object, path string) (*Object, error) { return nil, errors.New("no such package") }
		aimp = func(imports map[string]*ast.Object, path string) (*ast.Object, error) {
			return nil, errors.New("no such package")
		}
	case 2:
		dimp = func(imports map[string]*Object, path string) (*Object, error) {
			if o, ok := imports[path]; ok {
				return o, nil
			}
			sc := NewScope(nil)
			sc.Insert(&Object{Kind: Fun, Name: libMember})
			o := &Object{Kind: Pkg, Name: "lib", Data: sc}
			imports[path] = o
			return o, nil
		}
		aimp = func(imports map[string]*ast.Object, path string) (*ast.Object, error) {
			if o, ok := imports[path]; ok {
				return o, nil
			}
			sc := ast.NewScope(nil)
			sc.Insert(&ast.Object{Kind: ast.Fun, Name: libMember})
			o := &ast.Object{Kind: ast.Pkg, Name: "lib", Data: sc}
			imports[path] = o
			return o, nil
		}
	}
	fset := token.NewFileSet()
	// universe scope: absent, or holding one predeclared name that unresolved identifiers may hit
	var duni *Scope
	var auni *ast.Scope
	if hasUniverse {
		duni, auni = NewScope(nil), ast.NewScope(nil)
		duni.Insert(&Object{Kind: Typ, Name: universeName})
		auni.Insert(&ast.Object{Kind: ast.Typ, Name: universeName})
	}
	dp, derr := NewPackage(fset, dfiles, dimp, duni)
	ap, aerr := ast.NewPackage(fset, afiles, aimp, auni)
	vfReach("built")

	vfAssert((derr == nil) == (aerr == nil), "same-error-presence")
	if derr != nil && aerr != nil {
		dl, _ := derr.(scanner.ErrorList)
		al, _ := aerr.(scanner.ErrorList)
		vfAssert(len(dl) == len(al), "same-error-report/count")
		for i := range al {
			if i < len(dl) {
				vfAssert(dl[i].Msg == al[i].Msg, "same-error-report/message")
			}
		}
	}
	vfAssert(dp.Name == ap.Name, "same-package-name")
	vfAssert(len(dp.Scope.Objects) == len(ap.Scope.Objects), "same-package-scope-size")
	for k, ao := range ap.Scope.Objects {
		do, ok := dp.Scope.Objects[k]
		vfAssert(ok, "same-package-scope-names")
		if ok {
			vfAssert(int(do.Kind) == int(ao.Kind) && do.Name == ao.Name, "same-package-scope-objects")
		}
	}
	vfAssert(len(dp.Imports) == len(ap.Imports), "same-imports-map")
	for name, af := range afiles {
		df := dfiles[name]
		vfAssert(len(df.Unresolved) == len(af.Unresolved), "same-unresolved-left")
		for i := range af.Unresolved {
			if i < len(df.Unresolved) {
				vfAssert(df.Unresolved[i].Name == af.Unresolved[i].Name, "same-unresolved-left")
			}
		}
	}
}
