package dst

// C19: decoration lists behave as plain ordered lists without aliasing.
// Elements are strings of one symbolic byte each (list semantics do not depend on content; the
// solver ranges over all byte values so that any mix-up of elements is visible).

func vfMkStrings(name string, n, spare int) []string {
	s := make([]string, n, n+spare)
	for i := 0; i < n; i++ {
		s[i] = vfBytes(name+string(rune('0'+i)), 1, "")
	}
	return s
}

func vfAssertSameStrings(got, want []string, id string) {
	vfAssert(len(got) == len(want), id+"/len")
	if len(got) != len(want) {
		return
	}
	for i := range got {
		vfAssert(got[i] == want[i], id+"/elem")
	}
}

// one operation applied to ds; returns the reference list after the same operation
func vfC19Op(ds *Decorations, model []string, op int, arg []string) []string {
	switch op {
	case 0:
		ds.Append(arg...)
		return append(append([]string{}, model...), arg...)
	case 1:
		ds.Prepend(arg...)
		return append(append([]string{}, arg...), model...)
	case 2:
		ds.Replace(arg...)
		return append([]string{}, arg...)
	case 3:
		ds.Clear()
		return nil
	}
	_ = ds.All()
	return model
}

// VerifC19Step: one operation from an arbitrary list state with an arbitrary argument
// (fresh array with spare capacity, a view of the list's own elements, or nil).
func VerifC19Step() {
	vfCapFork(true)
	n := vfChoice("dlen", 4)
	spare := vfChoice("dspare", 3)
	var d Decorations
	if n+spare > 0 || vfChoice("dnil", 2) == 0 {
		d = vfMkStrings("d", n, spare)
	}
	model := append([]string(nil), d...)

	var arg []string
	kind := vfChoice("argkind", 3)
	switch kind {
	case 0:
		arg = vfMkStrings("a", vfChoice("alen", 4), vfChoice("aspare", 3))
	case 1: // a view of the list's own visible elements, e.g. d.All()[lo:hi]
		lo := vfChoice("lo", len(d)+1)
		hi := lo + vfChoice("hi", len(d)-lo+1)
		arg = d[lo:hi]
	}
	argView := arg
	if kind == 0 {
		argView = arg[:cap(arg)] // whole backing array incl. spare capacity
	}
	snap := append([]string(nil), argView...)

	op := vfChoice("op", 5)
	want := vfC19Op(&d, model, op, arg)
	vfReach("post")

	vfAssertSameStrings(d.All(), want, "contents")
	vfAssertSameStrings(argView, snap, "arg-unmodified")
	if kind == 0 {
		vfAssert(!vfSharesStrings(d.All(), argView), "arg-not-retained")
	}
	if len(d) > 0 {
		vfAssert(&d.All()[0] == &d[0], "all-is-storage")
	}
	vfAssert(len(d.All()) == len(d), "all-is-storage/len")
	// later mutation of the argument by the caller must not show through
	if kind == 0 {
		for i := range argView {
			argView[i] = "mutated"
		}
		vfAssertSameStrings(d.All(), want, "contents-after-arg-mutation")
	}
}

// VerifC19Seq: sequences of operations (2 in quick, 3 in thorough) against the reference list, with
// the caller mutating each argument after the call.
func VerifC19Seq() {
	vfCapFork(true)
	steps := 2
	if vfTier() > 0 {
		steps = 3
	}
	var d Decorations
	var model []string
	for s := 0; s < steps; s++ {
		alen := vfChoice("alen", 3)
		if steps > 2 && alen == 1 {
			alen = 2 // thorough: argument lengths 0 and 2 only, so that three steps stay within the path budget
			vfAssume(false)
		}
		arg := vfMkStrings("s"+string(rune('0'+s))+"a", alen, vfChoice("aspare", 2))
		op := vfChoice("op", 4)
		model = vfC19Op(&d, model, op, arg)
		full := arg[:cap(arg)]
		for i := range full {
			full[i] = "mutated"
		}
		vfAssertSameStrings(d.All(), model, "seq-contents")
	}
	vfReach("end")
}
