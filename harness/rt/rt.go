package PKGNAME

// Native implementation of the harness API. The symbolic engine (gosym) intercepts every vf* function
// by name and never executes these bodies; natively they replay one concrete path from a JSON file.

import (
	"encoding/json"
	"fmt"
	"os"
	"path/filepath"
	"sort"
	"strings"
)

type vfReplayT struct {
	Harness string           `json:"harness"`
	Vals    map[string]int64 `json:"vals"`
	Choices []int            `json:"choices"`
	Obs     []vfObsT         `json:"obs"`
	Expect  string           `json:"expect"`
}
type vfObsT struct {
	Name string `json:"name"`
	Val  int64  `json:"val"`
}

type vfAssertFail struct{ id string }
type vfAssumeFail struct{}

var vfCur *vfReplayT
var vfOcc map[string]int
var vfChoicePos int
var vfObsLog []vfObsT
var vfEvents []string

func vfName(base string) string {
	k := vfOcc[base]
	vfOcc[base] = k + 1
	if k == 0 {
		return base
	}
	return fmt.Sprintf("%s#%d", base, k)
}

func vfInt(name string, lo, hi int) int {
	n := vfName(name)
	v, ok := vfCur.Vals[n]
	if !ok {
		return lo
	}
	return int(v)
}

func vfBool(name string) bool {
	n := vfName(name)
	return vfCur.Vals[n] != 0
}

func vfChoice(name string, n int) int {
	vfName(name)
	if vfChoicePos < len(vfCur.Choices) {
		c := vfCur.Choices[vfChoicePos]
		vfChoicePos++
		return c
	}
	vfChoicePos++
	return 0
}

func vfOpaque(name string, prefix string) string {
	n := vfName(name)
	l := int(vfCur.Vals[n+".len"])
	// when the model fixes a rune count below the byte length, some characters are two-byte letters
	if rc, ok := vfCur.Vals[n+".runes"]; ok && int(rc) < l && int(rc)*2 >= l {
		two := l - int(rc)
		return prefix + strings.Repeat("\u00e9", two) + strings.Repeat("x", l-2*two)
	}
	return prefix + strings.Repeat("x", l)
}

func vfBytes(name string, n int, alphabet string) string {
	nm := vfName(name)
	b := make([]byte, n)
	for i := range b {
		v, ok := vfCur.Vals[fmt.Sprintf("%s.b%d", nm, i)]
		if !ok {
			if alphabet != "" {
				v = int64(alphabet[0])
			} else {
				v = 'a'
			}
		}
		b[i] = byte(v)
	}
	return string(b)
}

func vfAssume(c bool) {
	if !c {
		panic(vfAssumeFail{})
	}
}

func vfAssert(c bool, id string) {
	if !c {
		panic(vfAssertFail{id})
	}
}

func vfReach(label string) {}

func vfObserve(name string, v int) { vfObsLog = append(vfObsLog, vfObsT{name, int64(v)}) }
func vfObserveStr(name string, s string) {
	vfObsLog = append(vfObsLog, vfObsT{name + ".len", int64(len(s))})
}

func vfAnd(a, b bool) bool     { return a && b }
func vfOr(a, b bool) bool      { return a || b }
func vfNot(a bool) bool        { return !a }
func vfImplies(a, b bool) bool { return !a || b }
func vfIte(c bool, a, b int) int {
	if c {
		return a
	}
	return b
}
func vfB2I(c bool) int {
	if c {
		return 1
	}
	return 0
}
func vfStrEq(a, b string) bool { return a == b }

func vfExpectPanic(f func()) (panicked bool) {
	defer func() {
		if r := recover(); r != nil {
			switch r.(type) {
			case vfAssertFail, vfAssumeFail:
				panic(r)
			}
			panicked = true
		}
	}()
	f()
	return false
}

func vfCapFork(on bool)      {}
func vfMapOrderFork(on bool) {}
func vfEvent(s string)       { vfEvents = append(vfEvents, s) }

// vfRunOne executes one replay file and returns a result line.
func vfRunOne(path string) string {
	data, err := os.ReadFile(path)
	if err != nil {
		return "error:" + err.Error()
	}
	var rp vfReplayT
	if err := json.Unmarshal(data, &rp); err != nil {
		return "error:" + err.Error()
	}
	h, ok := vfHarnesses[rp.Harness]
	if !ok {
		return "error:unknown harness " + rp.Harness
	}
	vfCur = &rp
	vfOcc = map[string]int{}
	vfChoicePos = 0
	vfObsLog = nil
	vfEvents = nil
	vfFSDir = "" // a fresh temporary directory per replay
	res := "ok"
	func() {
		defer func() {
			if r := recover(); r != nil {
				switch x := r.(type) {
				case vfAssertFail:
					res = "assert:" + x.id
				case vfAssumeFail:
					res = "assume-failed"
				default:
					res = "panic:" + strings.Replace(fmt.Sprint(r), "\n", " ", -1)
					if len(res) > 300 {
						res = res[:300]
					}
				}
			}
		}()
		h()
	}()
	if vfFSDir != "" {
		os.RemoveAll(vfFSDir) // the replay's temporary directory
		vfFSDir = ""
	}
	if res == "ok" && len(rp.Obs) > 0 {
		// compare observation log with what the symbolic engine predicted under its model
		if len(rp.Obs) != len(vfObsLog) {
			res = fmt.Sprintf("obs-mismatch:len %d vs native %d", len(rp.Obs), len(vfObsLog))
		} else {
			for i := range rp.Obs {
				if rp.Obs[i] != vfObsLog[i] {
					res = fmt.Sprintf("obs-mismatch:%s engine=%d native=%s=%d", rp.Obs[i].Name, rp.Obs[i].Val, vfObsLog[i].Name, vfObsLog[i].Val)
					break
				}
			}
		}
	}
	return res
}

// vfRunReplays runs every replay named by VERIF_REPLAY (a file or a directory of *.json).
func vfRunReplays() {
	p := os.Getenv("VERIF_REPLAY")
	if p == "" {
		return
	}
	var files []string
	if st, err := os.Stat(p); err == nil && st.IsDir() {
		files, _ = filepath.Glob(filepath.Join(p, "*.json"))
		sort.Strings(files)
	} else {
		files = []string{p}
	}
	for _, f := range files {
		fmt.Printf("VFRESULT %s %s\n", f, vfRunOne(f))
	}
}

func vfTier() int { return int(vfCur.Vals["$tier"]) }

// vfFormatFailAt(k): symbolic runs make the k-th go/format.Node call fail; natively format.Node is the
// real printer and this is a no-op (failures of the real printer cannot be injected).
func vfFormatFailAt(k int) {}

// Concurrency API (C16). Natively the two bodies run on two goroutines (under `go test -race` the Go
// race detector is the judge); symbolically they are executed one after the other with all accesses to
// shared memory recorded, and vfRaceFree is a solver query over schedules.
func vfShared(x interface{}) {}

func vfParallel(f1, f2 func()) {
	done := make(chan interface{}, 2)
	run := func(f func()) {
		defer func() { done <- recover() }()
		f()
	}
	go run(f1)
	go run(f2)
	r1, r2 := <-done, <-done
	if r1 != nil {
		panic(r1)
	}
	if r2 != nil {
		panic(r2)
	}
}

func vfRaceFree() bool { return true }

// vfNativeRepeats: how often a native run repeats a block whose outcome depends on Go's randomised map
// iteration order (the symbolic run explores all orders in one pass and gets 1).
func vfNativeRepeats() int { return 64 }
