package PKGNAME

import (
	"fmt"
	"reflect"
	"unsafe"
)

// vfSharesStrings reports whether the two slices' backing arrays [0,cap) overlap.
func vfSharesStrings(a, b []string) bool {
	if cap(a) == 0 || cap(b) == 0 {
		return false
	}
	sz := unsafe.Sizeof("")
	pa := reflect.ValueOf(a).Pointer()
	pb := reflect.ValueOf(b).Pointer()
	return pa < pb+uintptr(cap(b))*sz && pb < pa+uintptr(cap(a))*sz
}

func vfTypeName(v interface{}) string { return fmt.Sprintf("%T", v) }

func vfCollect(v reflect.Value, ptrs map[uintptr]bool, seen map[uintptr]bool) {
	switch v.Kind() {
	case reflect.Ptr:
		if v.IsNil() {
			return
		}
		p := v.Pointer()
		ptrs[p] = true
		if seen[p] {
			return
		}
		seen[p] = true
		vfCollect(v.Elem(), ptrs, seen)
	case reflect.Interface:
		if !v.IsNil() {
			vfCollect(v.Elem(), ptrs, seen)
		}
	case reflect.Struct:
		for i := 0; i < v.NumField(); i++ {
			vfCollect(v.Field(i), ptrs, seen)
		}
	case reflect.Slice:
		if v.IsNil() || v.Cap() == 0 {
			return
		}
		ptrs[v.Pointer()] = true
		for i := 0; i < v.Len(); i++ {
			vfCollect(v.Index(i), ptrs, seen)
		}
	case reflect.Array:
		for i := 0; i < v.Len(); i++ {
			vfCollect(v.Index(i), ptrs, seen)
		}
	case reflect.Map:
		if v.IsNil() {
			return
		}
		ptrs[v.Pointer()] = true
		it := v.MapRange()
		for it.Next() {
			vfCollect(it.Key(), ptrs, seen)
			vfCollect(it.Value(), ptrs, seen)
		}
	}
}

// vfNoAlias reports that no allocation, backing array or map is reachable from both a and b.
func vfNoAlias(a, b interface{}) bool {
	pa, pb := map[uintptr]bool{}, map[uintptr]bool{}
	vfCollect(reflect.ValueOf(a), pa, map[uintptr]bool{})
	vfCollect(reflect.ValueOf(b), pb, map[uintptr]bool{})
	for p := range pa {
		if pb[p] {
			return false
		}
	}
	return true
}
