package PKGNAME

import (
	"go/ast"
	"go/parser"
	"go/token"
	"os"
	"path/filepath"
	"fmt"
	"reflect"
	"unsafe"
)

// vfSharesStrings reports whether the two slices' backing arrays [0,cap) overlap.
func vfSharesStrings(a, b []string) bool {
	if cap(a) == 0 || cap(b) == 0 {
		return false
	}
	sz := unsafe.Sizeof("")
	pa := reflect.ValueOf(a).Pointer()
	pb := reflect.ValueOf(b).Pointer()
	return pa < pb+uintptr(cap(b))*sz && pb < pa+uintptr(cap(a))*sz
}

func vfTypeName(v interface{}) string { return fmt.Sprintf("%T", v) }

func vfCollect(v reflect.Value, ptrs map[uintptr]bool, seen map[uintptr]bool) {
	switch v.Kind() {
	case reflect.Ptr:
		if v.IsNil() {
			return
		}
		p := v.Pointer()
		ptrs[p] = true
		if seen[p] {
			return
		}
		seen[p] = true
		vfCollect(v.Elem(), ptrs, seen)
	case reflect.Interface:
		if !v.IsNil() {
			vfCollect(v.Elem(), ptrs, seen)
		}
	case reflect.Struct:
		for i := 0; i < v.NumField(); i++ {
			vfCollect(v.Field(i), ptrs, seen)
		}
	case reflect.Slice:
		if v.IsNil() || v.Cap() == 0 {
			return
		}
		ptrs[v.Pointer()] = true
		for i := 0; i < v.Len(); i++ {
			vfCollect(v.Index(i), ptrs, seen)
		}
	case reflect.Array:
		for i := 0; i < v.Len(); i++ {
			vfCollect(v.Index(i), ptrs, seen)
		}
	case reflect.Map:
		if v.IsNil() {
			return
		}
		ptrs[v.Pointer()] = true
		it := v.MapRange()
		for it.Next() {
			vfCollect(it.Key(), ptrs, seen)
			vfCollect(it.Value(), ptrs, seen)
		}
	}
}

// vfNoAlias reports that no allocation, backing array or map is reachable from both a and b.
func vfNoAlias(a, b interface{}) bool {
	pa, pb := map[uintptr]bool{}, map[uintptr]bool{}
	vfCollect(reflect.ValueOf(a), pa, map[uintptr]bool{})
	vfCollect(reflect.ValueOf(b), pb, map[uintptr]bool{})
	for p := range pa {
		if pb[p] {
			return false
		}
	}
	return true
}

func vfDeepEqual(a, b interface{}) bool { return reflect.DeepEqual(a, b) }

func vfFieldValue(v interface{}, name string) (reflect.Value, bool) {
	rv := reflect.ValueOf(v)
	if !rv.IsValid() {
		return rv, false
	}
	if rv.Kind() == reflect.Ptr {
		if rv.IsNil() {
			return rv, false
		}
		rv = rv.Elem()
	}
	if rv.Kind() != reflect.Struct {
		return rv, false
	}
	f := rv.FieldByName(name)
	return f, f.IsValid()
}

func vfField(v interface{}, name string) interface{} {
	f, ok := vfFieldValue(v, name)
	if !ok {
		return nil
	}
	return f.Interface()
}

func vfFieldPos(v interface{}, name string) (token.Pos, bool) {
	f, ok := vfFieldValue(v, name)
	if !ok {
		return 0, false
	}
	p, ok := f.Interface().(token.Pos)
	return p, ok
}

func vfIsNil(v interface{}) bool {
	if v == nil {
		return true
	}
	rv := reflect.ValueOf(v)
	switch rv.Kind() {
	case reflect.Ptr, reflect.Slice, reflect.Map, reflect.Interface, reflect.Func:
		return rv.IsNil()
	}
	return false
}

func vfFieldElem(v interface{}, name string, i int) interface{} {
	f, ok := vfFieldValue(v, name)
	if !ok {
		return nil
	}
	if i >= 0 {
		if f.Kind() != reflect.Slice || i >= f.Len() {
			return nil
		}
		f = f.Index(i)
	}
	return f.Interface()
}

// File-system API (C20): symbolically an in-memory model of the os layer; natively a real temporary
// directory.
var vfFSDir string

func vfFSRoot() string {
	if vfFSDir == "" {
		d, err := os.MkdirTemp("", "vfs")
		if err != nil {
			panic(err)
		}
		vfFSDir = d
	}
	return vfFSDir
}

func vfFSPut(name, content string) {
	os.MkdirAll(filepath.Dir(name), 0o755)
	if err := os.WriteFile(name, []byte(content), 0o644); err != nil {
		panic(err)
	}
}

func vfFSGet(name string) (string, bool) {
	b, err := os.ReadFile(name)
	if err != nil {
		return "", false
	}
	return string(b), true
}

func vfFSCount() int {
	n := 0
	filepath.Walk(vfFSRoot(), func(p string, info os.FileInfo, err error) error {
		if err == nil && !info.IsDir() {
			n++
		}
		return nil
	})
	return n
}


func vfShiftWalk(a, b reflect.Value, delta token.Pos, seen map[[2]uintptr]bool) bool {
	if a.Type() != b.Type() {
		return false
	}
	if a.Type() == reflect.TypeOf(token.Pos(0)) {
		p, q := token.Pos(a.Int()), token.Pos(b.Int())
		if p == 0 {
			return q == 0
		}
		return q == p+delta
	}
	switch a.Kind() {
	case reflect.Ptr:
		if a.IsNil() || b.IsNil() {
			return a.IsNil() == b.IsNil()
		}
		k := [2]uintptr{a.Pointer(), b.Pointer()}
		if seen[k] {
			return true
		}
		seen[k] = true
		return vfShiftWalk(a.Elem(), b.Elem(), delta, seen)
	case reflect.Interface:
		if a.IsNil() || b.IsNil() {
			return a.IsNil() == b.IsNil()
		}
		return vfShiftWalk(a.Elem(), b.Elem(), delta, seen)
	case reflect.Struct:
		for i := 0; i < a.NumField(); i++ {
			if !vfShiftWalk(a.Field(i), b.Field(i), delta, seen) {
				return false
			}
		}
		return true
	case reflect.Slice:
		if a.IsNil() != b.IsNil() || a.Len() != b.Len() {
			return false
		}
		for i := 0; i < a.Len(); i++ {
			if !vfShiftWalk(a.Index(i), b.Index(i), delta, seen) {
				return false
			}
		}
		return true
	case reflect.Map, reflect.Func, reflect.Chan:
		return true
	}
	return reflect.DeepEqual(a.Interface(), b.Interface())
}

// vfPosShifted: b equals a except that every token.Pos p != NoPos of a is p+delta in b.
func vfPosShifted(a, b interface{}, delta int) bool {
	if a == nil || b == nil {
		return a == nil && b == nil
	}
	return vfShiftWalk(reflect.ValueOf(a), reflect.ValueOf(b), token.Pos(delta), map[[2]uintptr]bool{})
}

func vfIgnoreWalk(a, b reflect.Value, seen map[[2]uintptr]bool) bool {
	if a.Type() != b.Type() {
		return false
	}
	if a.Type() == reflect.TypeOf(token.Pos(0)) {
		return (a.Int() == 0) == (b.Int() == 0)
	}
	switch a.Kind() {
	case reflect.Ptr:
		if a.IsNil() || b.IsNil() {
			return a.IsNil() == b.IsNil()
		}
		k := [2]uintptr{a.Pointer(), b.Pointer()}
		if seen[k] {
			return true
		}
		seen[k] = true
		return vfIgnoreWalk(a.Elem(), b.Elem(), seen)
	case reflect.Interface:
		if a.IsNil() || b.IsNil() {
			return a.IsNil() == b.IsNil()
		}
		return vfIgnoreWalk(a.Elem(), b.Elem(), seen)
	case reflect.Struct:
		for i := 0; i < a.NumField(); i++ {
			if !vfIgnoreWalk(a.Field(i), b.Field(i), seen) {
				return false
			}
		}
		return true
	case reflect.Slice:
		if a.IsNil() != b.IsNil() || a.Len() != b.Len() {
			return false
		}
		for i := 0; i < a.Len(); i++ {
			if !vfIgnoreWalk(a.Index(i), b.Index(i), seen) {
				return false
			}
		}
		return true
	case reflect.Map, reflect.Func, reflect.Chan:
		return true
	}
	return reflect.DeepEqual(a.Interface(), b.Interface())
}

func vfSameIgnoringPos(a, b interface{}) bool {
	if a == nil || b == nil {
		return a == nil && b == nil
	}
	return vfIgnoreWalk(reflect.ValueOf(a), reflect.ValueOf(b), map[[2]uintptr]bool{})
}

// vfParseInto is parser.ParseFile(fset, "", src, ParseComments); the bool reports parse errors.
func vfParseInto(fset *token.FileSet, src string) (*ast.File, bool) {
	f, err := parser.ParseFile(fset, "", src, parser.ParseComments)
	return f, err != nil
}

func vfHasPosField(node interface{}, p token.Pos) bool {
	rv := reflect.ValueOf(node)
	if !rv.IsValid() || rv.Kind() != reflect.Ptr || rv.IsNil() || rv.Elem().Kind() != reflect.Struct {
		return false
	}
	rv = rv.Elem()
	for i := 0; i < rv.NumField(); i++ {
		if rv.Field(i).Type() == reflect.TypeOf(token.Pos(0)) && token.Pos(rv.Field(i).Int()) == p {
			return true
		}
	}
	return false
}
